#!/bin/bash
# dev helper: devrun.sh DIR PROP COUNT [programs...]  -> prints distinct violation signatures + summaries
d=$1; prop=$2; n=$3; shift 3
progs=${@:-Sim1-default Sim2-default Sim3-default}
for m in $progs; do ($d/simrun-$m --prop $prop --count $n --values /verif/corpus/values > $d/out-$m.txt 2>&1; echo "$m exit=$?" >> $d/out-$m.txt) & done; wait
cat $(for m in $progs; do echo $d/out-$m.txt; done) | python3 -c "
import sys,json
seen={}
for l in sys.stdin:
    if not l.startswith('{'):
        if 'SUMMARY' in l or 'runtime error' in l or 'exit=' in l or 'SIM-' in l or 'ERROR' in l: print(l.rstrip()[:300])
        continue
    d=json.loads(l)
    if d['type']=='summary': print(d['program'],d['wall_s'], {k:v for k,v in d['counters'].items() if 'fired' in k or 'skip' in k or k in ('runs',)}, d['violations']); continue
    if d['sig'] in seen: continue
    seen[d['sig']]=1
    print(d['sig'],'|',d['detail']); print('   ',d['plan'].replace(chr(10),' ; ')[:500])
"
