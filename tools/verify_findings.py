#!/usr/bin/env python3
"""Replay every findings/*.replay against a given tree (REPO env) and print the verdict.
usage: REPO=/tmp/wt-base python3 tools/verify_findings.py [files...]
"""
import os, sys, glob, shutil, subprocess
sys.path.insert(0, os.path.dirname(os.path.abspath(__file__)))
import build, orch

def main():
    files = sys.argv[1:] or sorted(glob.glob(os.path.join(build.VERIF, "findings", "*.replay")))
    files = [f for f in files if "-" in (orch.plan_program(open(f).read()) or "")]   # simrun replays only (C12/C19 replays go through their own checks)
    wdir = os.path.join("/tmp", "vf-%d" % os.getpid())
    os.makedirs(wdir)
    try:
        need = {}   # (cflags kind) -> set(programs)
        for f in files:
            t = open(f).read()
            prop = orch.plan_prop(t); pg = orch.plan_program(t)
            kind = "plain" if prop == "C15" else "san"
            need.setdefault(kind, set()).add(pg)
        exes = {}
        for kind, progs in need.items():
            cflags = build.PLAIN_CFLAGS if kind == "plain" else build.SAN_CFLAGS
            a, r = build.build_programs(os.path.join(wdir, kind), [tuple(p.split("-", 1)) for p in sorted(progs)], cflags)
            for k, v in r.items(): exes[(kind, k)] = v
        for f in files:
            t = open(f).read()
            prop = orch.plan_prop(t); pg = orch.plan_program(t)
            kind = "plain" if prop == "C15" else "san"
            r = orch.run_replay(exes[(kind, pg)], f)
            print("%-50s %s %s %s" % (os.path.basename(f), "VIOLATED" if r["violated"] else ("skipped" if r["skipped"] else "pass"), r["sig"], r["detail"][:100]))
    finally:
        shutil.rmtree(wdir, ignore_errors=True)

if __name__ == "__main__":
    main()
