import build
CONFIG = dict(
    level="exploration",
    gen="none",
    cflags=build.PLAIN_CFLAGS,
    programs=[("Sim4", "default", 3000, 5, 100000, 6), ("Sim1", "default", 2000, 5, 60000, 5), ("Sim2", "default", 1500, 2, 40000, 3),
              ("Sim3", "default", 800, 1, 20000, 1), ("Sim6", "default", 400, 1, 10000, 1)],
    budget_quick=60, budget_thorough=1500,
    eval_counter="c15.decodes", nontrivial_set="c15.heap_cases",
    rule="stack: every validated nest template (recursive types of the corpus in BER definite/indefinite, nested constructed strings, "
         "XER, OER, UPER) x depth {10,10^2,10^3,10^4,10^5} x max_stack_size {default, 1000, 30000, 10^6} is decoded on an 8 MB thread "
         "stack owned by the simulator (one-shot, then with seeded chunk sizes); the process dying with SIGSEGV is the violation. heap: "
         "valid encodings of generated values turned hostile (maximal length/count determinant then stall, determinant floods, transport "
         "damage, length bumps) and delivered in 1-3 chunks under a budgeted allocator: every allocation must satisfy "
         "live+request <= 1024*bytes_delivered_so_far + 327680, else it is refused and recorded. bulk: large VALID inputs (one payload of "
         "40K/140K/400K units in the root, an extension addition or alternative; DER/OER/UPER/XER; also decoded as an older type version that skips "
         "the payload) in 16K deliveries, from a slow peer (1021+1022 bytes) and in ONE call under 24*bytes_delivered + 327680; the one-call runs execute on the painted 8 MB stack: "
         "exhaustion or a high-water mark above 256 KiB for such flat input is a violation (stack-growth). stack templates also nest inside skipped unknown additions / ANY. evaluations = decode runs; "
         "non-trivial/distinct = distinct hostile heap cases (program,type,syntax,hostile move,stream)",
    assumptions=["plain -O1 build so that frame sizes are the shipped ones; memory errors are C04's business",
                 "heap budget constants A=1024 bytes/byte, B=320 KiB (measured: 153 bytes/byte and 16.8 KB for inputs <= 64 bytes; B also covers one 64K-unit PER fragment of 4-octet characters, 256 KiB, which asn1c reserves before reading it - a constant, not a function of the peer's length prefix) (DESIGN 5.5, 15.2)",
                 "a template is used only if the library decodes its depth-3 instance completely and differently from depth 2",
                 "max_stack_size 0 (unlimited) is never used: it promises nothing"],
    stubs=["hostile peer / transport", "budgeted allocator front", "8 MB thread stack with guard page and paint", "nest template generators"],
)
