"""C12 check: compiler determinism under a simulated process environment (sim/envshim.c), plus the
print -> parse -> print by-product clause (plain differential, stated as such)."""
import os, sys, json, time, shutil, subprocess, hashlib, glob, random, itertools, re
from concurrent.futures import ThreadPoolExecutor
sys.path.insert(0, os.path.dirname(os.path.abspath(__file__)))
import build, orch
from orch import log

VERIF = build.VERIF
PROP = "C12"
WRAP = "-Wl,--wrap=main,--wrap=malloc,--wrap=calloc,--wrap=realloc,--wrap=free,--wrap=strdup"
ORDER_DEPENDENT = re.compile(r"^(pdu_collection\.c|Makefile\.am\..*|converter-example\.mk)$")
OLD_SYNTAX = {"87-old-syntax-OK.asn1", "rfc3280-PKIX1Explicit88.asn1", "rfc3280-PKIX1Implicit88.asn1"}   # outside the "modern syntax" quantifier
FLAGSETS = [[], ["-fcompound-names", "-findirect-choice"], ["-fwide-types"], ["-gen-PER", "-gen-OER"], ["-fincludes-quoted", "-no-gen-example"]]


EXDIR = None     # examples/*.asn1 are build products of the repository: regenerated here from the tracked RFC texts


def prepare_examples(wdir):
    global EXDIR
    d = os.path.join(wdir, "examples"); os.makedirs(d, exist_ok=True)
    txts = sorted(glob.glob(os.path.join(build.REPO, "examples", "rfc*.txt")))
    try:
        subprocess.run(["perl", os.path.join(build.REPO, "examples", "crfc2asn1.pl")] + txts, cwd=d, stdout=subprocess.DEVNULL, stderr=subprocess.DEVNULL, timeout=120)
    except Exception:
        pass
    EXDIR = d
    return sorted(os.listdir(d))


def resolve(m):
    kind, rel = m.split(":", 1)
    if kind == "ex": return os.path.join(EXDIR, rel)
    if kind == "gen":
        path = os.path.join(EXDIR, rel + ".asn1")
        if not os.path.exists(path):
            open(path, "w").write(subprocess.check_output([sys.executable, os.path.join(VERIF, "tools", "gen_module.py"), rel[3:], rel], text=True))
        return path
    return os.path.join(build.REPO if kind == "repo" else VERIF, rel)


def module_sets(tier, seed):
    rnd = random.Random(seed * 7919 + 17)
    tests = sorted(glob.glob(os.path.join(build.REPO, "tests/tests-asn1c-compiler/*-OK.asn1")))
    tests = ["repo:" + os.path.relpath(t, build.REPO) for t in tests]
    sets = []
    for m in ("Sim1", "Sim2", "Sim3", "Sim4", "Sim5", "Sim6", "Sim7", "Sim8", "Sim9"): sets.append(["verif:corpus/%s.asn1" % m])
    # seeded generated modules (tools/gen_module.py): the same-code clause of the property quantifies over these
    for k in range(6 if tier == "quick" else 40):
        g = "gen:Gen%d" % ((seed % 4096) * 64 + k + 1)
        resolve(g)                       # written once here, before the cases run in parallel
        sets.append([g])
    sets.append(["verif:corpus/ImpA.asn1", "verif:corpus/ImpB.asn1"])
    sets.append(["verif:corpus/ParA.asn1", "verif:corpus/ParB.asn1"])       # parameterized types in the second file
    sets.append(["verif:corpus/CoA.asn1", "verif:corpus/CoB.asn1"])         # COMPONENTS OF, values and defaults across modules
    sets.append(["verif:corpus/CoC.asn1", "verif:corpus/CoD.asn1"])
    sets.append(["verif:corpus/Dup1.asn1", "verif:corpus/Dup2.asn1", "verif:corpus/Dup3.asn1"])   # the same identifiers defined in three modules   # ... into a module with different default tagging
    sets.append(["verif:corpus/OidV1.asn1", "verif:corpus/OidV2.asn1", "verif:corpus/OidBase.asn1", "verif:corpus/OidUser.asn1"])   # same module name, different OIDs
    sets.append(["verif:corpus/LstA.asn1", "verif:corpus/LstB.asn1"])          # a list type and its element type in two modules that import each other
    sets.append(["verif:corpus/ExtBase.asn1", "verif:corpus/ExtNarrow.asn1", "verif:corpus/ExtAlias.asn1"])   # extensible constraints: narrowed in one module, inherited unchanged in another
    sets.append(["verif:corpus/ObjA.asn1", "verif:corpus/ObjB.asn1"])          # types used only through information objects of another module
    sets.append(["verif:corpus/ResA.asn1", "verif:corpus/ResB.asn1", "verif:corpus/ResC.asn1"])   # same names meaning different things in different modules
    sets.append(["verif:corpus/Sim1.asn1", "verif:corpus/Sim2.asn1", "verif:corpus/Sim3.asn1"])
    have = set(os.listdir(EXDIR)) if EXDIR else set()
    if {"rfc3280-PKIX1Explicit88.asn1", "rfc3280-PKIX1Implicit88.asn1"} <= have:
        sets.append(["ex:rfc3280-PKIX1Explicit88.asn1", "ex:rfc3280-PKIX1Implicit88.asn1"])
    for f in ("rfc4511-Lightweight-Directory-Access-Protocol-V3.asn1", "rfc3525-MEDIA-GATEWAY-CONTROL.asn1"):
        if f in have: sets.append(["ex:" + f])
    if tier == "thorough":
        sets.append(["repo:examples/rrc-7.1.0.asn1"])
        for t in tests: sets.append([t])
        # seeded multi-file sets out of independent test files
        for _ in range(20): sets.append(rnd.sample(tests, 3))
    else:
        for t in rnd.sample(tests, 36): sets.append([t])
        for _ in range(10): sets.append(rnd.sample(tests, 2))
    return sets


def tree_hash(d):
    res = {}
    for root, _, files in os.walk(d):
        for f in files:
            p = os.path.join(root, f)
            res[os.path.relpath(p, d)] = hashlib.sha256(open(p, "rb").read()).hexdigest()
    return res


def run_compiler(shim, wdir, tag, modules, flags, envseed, order):
    """One asn1c execution in its own scratch dir with the same relative arguments. Returns dict."""
    d = os.path.join(wdir, "x-" + tag)
    shutil.rmtree(d, ignore_errors=True); os.makedirs(os.path.join(d, "out"))
    names = []
    for i, m in enumerate(modules):
        src = resolve(m)
        dst = os.path.join(d, "m%d-%s" % (i, os.path.basename(src)))
        shutil.copy(src, dst); names.append(os.path.basename(dst))
    args = [names[i] for i in order]
    env = dict(os.environ, ENVSHIM_SEED=str(envseed), ENVSHIM_STATS=os.path.join(d, "stats.json"))
    cmd = ["setarch", "x86_64", "-R", shim, "-S", os.path.join(build.REPO, "skeletons"), "-pdu=all"] + flags + ["-D", "out"] + args
    try:
        p = subprocess.run(cmd, cwd=d, env=env, stdout=subprocess.PIPE, stderr=subprocess.STDOUT, timeout=300)
        rc, out = p.returncode, p.stdout
    except subprocess.TimeoutExpired:
        rc, out = -9, b"timeout"
    stats = {}
    try: stats = json.load(open(os.path.join(d, "stats.json")))
    except Exception: pass
    res = dict(rc=rc, log=hashlib.sha256(out).hexdigest(), logtext=out[-600:].decode(errors="replace"), tree=tree_hash(os.path.join(d, "out")), stats=stats, dir=d)
    shutil.rmtree(d, ignore_errors=True)
    return res


def first_diff(a, b, per_type_only):
    ka, kb = set(a["tree"]), set(b["tree"])
    if per_type_only:
        ka = {k for k in ka if not ORDER_DEPENDENT.match(k)}; kb = {k for k in kb if not ORDER_DEPENDENT.match(k)}
    if a["rc"] != b["rc"]: return "exit-status", "exit %s vs %s" % (a["rc"], b["rc"])
    if ka != kb: return "file-set", "files only in one run: %s" % sorted(ka ^ kb)[:5]
    for k in sorted(ka):
        if a["tree"][k] != b["tree"][k]: return k, "file %s differs" % k
    if not per_type_only and a["log"] != b["log"]: return "stdout", "compiler messages differ"
    return None, None


def classify(fname):
    if fname in ("exit-status", "file-set", "stdout"): return fname
    if ORDER_DEPENDENT.match(fname): return "collection-file"
    return ("type-header" if fname.endswith(".h") else "type-source") if not os.path.exists(os.path.join(build.REPO, "skeletons", fname)) else "skeleton-copy"


def modtag(modules):
    return "+".join(os.path.splitext(os.path.basename(m))[0] for m in modules)


def check_case(shim, plain, wdir, tag, case):
    """case: dict(kind, modules, flags, seeds|perms...). Returns (violated, sig, detail, nruns, stats)."""
    kind, modules, flags = case["kind"], case["modules"], case["flags"]
    n = len(modules)
    if kind == "envdiff":
        runs = [run_compiler(shim, wdir, "%s-e%d" % (tag, s), modules, flags, s, list(range(n))) for s in case["envseeds"]]
        for r in runs[1:]:
            f, detail = first_diff(runs[0], r, False)
            if f: return True, "C12/envdiff/" + classify(f) + "/" + f + "@" + modtag(modules), detail + " between environment seeds %s (modules %s, flags %s)" % (case["envseeds"], modules, flags), len(runs), runs
        return False, "", "", len(runs), runs
    if kind == "permdiff":
        runs = [run_compiler(shim, wdir, "%s-p%d" % (tag, i), modules, flags, case["envseeds"][0], list(perm)) for i, perm in enumerate(case["perms"])]
        for r in runs[1:]:
            f, detail = first_diff(runs[0], r, True)
            if f: return True, "C12/permdiff/" + classify(f) + "/" + f + "@" + modtag(modules), detail + " between argument orders %s (modules %s)" % (case["perms"], modules), len(runs), runs
        return False, "", "", len(runs), runs
    if kind in ("fixpoint", "samecode"):
        src = resolve(modules[0]); base = os.path.basename(src)
        d = os.path.join(wdir, "x-" + tag); shutil.rmtree(d, ignore_errors=True)
        os.makedirs(os.path.join(d, "a", "out")); os.makedirs(os.path.join(d, "b", "out")); os.makedirs(os.path.join(d, "c"))
        shutil.copy(src, os.path.join(d, "a", base))
        p1 = subprocess.run([plain, "-E", base], cwd=os.path.join(d, "a"), stdout=subprocess.PIPE, stderr=subprocess.PIPE)
        if p1.returncode != 0: return False, "", "skip: -E rejected the original", 1, []
        open(os.path.join(d, "b", base), "wb").write(p1.stdout)
        p2 = subprocess.run([plain, "-E", base], cwd=os.path.join(d, "b"), stdout=subprocess.PIPE, stderr=subprocess.PIPE)
        if p2.returncode != 0: return True, "C12/fixpoint/reparse-rejected/" + modtag(modules), "asn1c -E output of %s is not accepted by asn1c: %s" % (modules[0], p2.stderr[-300:].decode(errors="replace")), 2, []
        if p1.stdout != p2.stdout:
            return True, "C12/fixpoint/text-differs/" + modtag(modules), "printing %s twice does not reach a fixpoint" % modules[0], 2, []
        if kind == "samecode":
            outs = []
            for sub in ("a", "b"):
                p = subprocess.run([plain, "-S", os.path.join(build.REPO, "skeletons"), "-pdu=all"] + flags + ["-D", "out", base], cwd=os.path.join(d, sub), stdout=subprocess.PIPE, stderr=subprocess.STDOUT)
                outs.append(dict(rc=p.returncode, log="", tree=tree_hash(os.path.join(d, sub, "out"))))
            f, detail = first_diff(outs[0], outs[1], True)
            shutil.rmtree(d, ignore_errors=True)
            if f: return True, "C12/samecode/" + classify(f) + "/" + f + "@" + modtag(modules), "code generated from the printed text of %s differs: %s" % (modules[0], detail), 4, []
            return False, "", "", 4, []
        shutil.rmtree(d, ignore_errors=True)
        return False, "", "", 2, []
    return False, "", "unknown kind", 0, []


def plan_text(case):
    return "property C12\nprogram asn1c\nkind %s\nmodules %s\nflags %s\nenvseeds %s\nperms %s\n" % (
        case["kind"], " ".join(case["modules"]), " ".join(case["flags"]) or "-", " ".join(map(str, case.get("envseeds", []))),
        ";".join(",".join(map(str, p)) for p in case.get("perms", [])) or "-")


def parse_plan(text):
    d = {}
    for l in text.splitlines():
        if l.startswith("#") or not l.strip(): continue
        k, _, v = l.partition(" "); d[k] = v.strip()
    case = dict(kind=d.get("kind"), modules=d.get("modules", "").split(), flags=[] if d.get("flags", "-") == "-" else d["flags"].split(),
                envseeds=[int(x) for x in d.get("envseeds", "").split()], perms=[] if d.get("perms", "-") == "-" else [tuple(int(y) for y in p.split(",")) for p in d["perms"].split(";")])
    return case


def build_all(wdir):
    with ThreadPoolExecutor(max_workers=2) as ex:
        f1 = ex.submit(build.build_compiler, os.path.join(wdir, "plain"))
        f2 = ex.submit(build.build_compiler, os.path.join(wdir, "shim"), [os.path.join(VERIF, "sim", "envshim.c")], [WRAP], ("-O1", "-g"), "asn1c-shim")
        return f1.result(), f2.result()


def main(a):
    tier, seed = a.tier, a.seed
    t0 = time.time()
    wdir = os.path.join(VERIF, ".build", "C12-%d" % os.getpid())
    shutil.rmtree(wdir, ignore_errors=True); os.makedirs(wdir)
    outdir = os.path.join(VERIF, "out", PROP); os.makedirs(outdir, exist_ok=True)
    rc = 0
    try:
        try:
            plain, shim = build_all(wdir)
        except build.BuildError as e:
            log("BUILD FAILED:\n" + str(e)); return 2
        prepare_examples(wdir)
        t_build = time.time() - t0
        if a.replay:
            case = parse_plan(open(a.replay).read())
            v, sig, detail, n, _ = check_case(shim, plain, wdir, "replay", case)
            if v: print("VIOLATION property=C12 replay=%s" % a.replay); print("  signature=%s\n  %s" % (sig, detail)); return 1
            print("OK replay property=C12 no violation"); return 0
        opened, fixed = orch.load_known(PROP)
        violations, suppressed, known_seen = [], set(), []
        for e in fixed + opened:
            if not e["replay"] or not os.path.exists(e["replay"]): continue
            v, sig, detail, n, _ = check_case(shim, plain, wdir, "known", parse_plan(open(e["replay"]).read()))
            if v and e in fixed: print("VIOLATION property=C12 replay=%s" % e["replay"]); print("  (a finding recorded as fixed has returned: %s)" % sig); violations.append(sig)
            elif v: print(e["text"]); suppressed.add(sig); known_seen.append(e["text"])
        rnd = random.Random(seed * 104729 + 1)
        nseeds = 4 if tier == "quick" else 16
        nperm = 2 if tier == "quick" else 6
        cases = []
        for ms in module_sets(tier, seed):
            flags = FLAGSETS[rnd.randrange(len(FLAGSETS))] if rnd.random() < 0.5 else []
            cases.append(dict(kind="envdiff", modules=ms, flags=flags, envseeds=[rnd.randrange(1, 1 << 30) for _ in range(nseeds)]))
            if len(ms) > 1:
                perms = list(itertools.permutations(range(len(ms))))
                rnd.shuffle(perms)
                perms = [tuple(range(len(ms)))] + [p for p in perms if p != tuple(range(len(ms)))][:nperm - 1]
                cases.append(dict(kind="permdiff", modules=ms, flags=flags, envseeds=[rnd.randrange(1, 1 << 30)], perms=perms))
            if len(ms) > 1 and all(m.startswith("verif:") for m in ms):
                # the members of a corpus multi-file set also go through the print / re-parse / print cycle, one by one (-E needs no imports)
                for m in ms: cases.append(dict(kind="fixpoint", modules=[m], flags=[]))
            if len(ms) == 1 and os.path.basename(ms[0]) not in OLD_SYNTAX:
                generated = ms[0].startswith("verif:") or ms[0].startswith("gen:")
                cases.append(dict(kind="samecode" if generated else "fixpoint", modules=ms, flags=flags))
        counters = {"runs": 0, "cases": len(cases)}
        kinds = {}
        samples, distinct, cand = [], set(), {}
        fired = {"heap_base_values": set(), "stack_shift_values": set(), "recycled_chunks": 0, "fresh_chunks": 0, "argv_orders": 0}
        def do(ic):
            i, c = ic
            return c, check_case(shim, plain, wdir, "c%d" % i, c)
        t1 = time.time()
        with ThreadPoolExecutor(max_workers=14) as ex:
            for c, (v, sig, detail, n, runs) in ex.map(do, enumerate(cases)):
                counters["runs"] += n; kinds[c["kind"]] = kinds.get(c["kind"], 0) + 1
                if detail.startswith("skip"): counters["skipped_precondition"] = counters.get("skipped_precondition", 0) + 1
                for r in runs:
                    st = r.get("stats") or {}
                    if st:
                        fired["heap_base_values"].add(st["heap_base"]); fired["stack_shift_values"].add(st["stack_shift"])
                        fired["recycled_chunks"] += st["recycled"]; fired["fresh_chunks"] += st["fresh"]
                        if st["recycled"] > 0: distinct.add((tuple(c["modules"]), tuple(c["flags"]), st["heap_base"], st["stack_shift"]))
                if c["kind"] == "permdiff": fired["argv_orders"] += len(c["perms"])
                if len(samples) < 4 and c["kind"] in ("envdiff", "permdiff"): samples.append(plan_text(c))
                if v and sig not in cand: cand[sig] = (c, detail)
        t_run = time.time() - t1
        for sig, (c, detail) in sorted(cand.items()):
            if sig in suppressed: continue
            path = os.path.join(outdir, orch.sig_hash(sig) + ".replay")
            open(path, "w").write("# signature %s\n" % sig + plan_text(c))
            v1 = check_case(shim, plain, wdir, "gate1", c); v2 = check_case(shim, plain, wdir, "gate2", c)
            if not (v1[0] and v2[0] and v1[1] == v2[1]):
                print("HARNESS-NONDETERMINISTIC property=C12 signature=%s replay=%s" % (sig, path)); rc = max(rc, 2); continue
            print("VIOLATION property=C12 replay=%s" % path); print("  signature=%s\n  %s" % (sig, detail)); violations.append(sig)
        if violations: rc = max(rc, 1)
        ev = {"property_id": PROP, "tier": tier, "seed": seed, "level": "exploration",
              "coverage": {"evaluations": counters["runs"], "distinct_nontrivial": len(distinct),
                           "rule": "module set = shipped *-OK.asn1 test modules (seeded subset in quick), examples, the /verif corpus and multi-file sets; per set the asn1c built "
                                   "from /repo with sim/envshim.c runs under setarch -R with %d seeded address-space layouts (heap base, stack shift, junk in recycled chunks and in the "
                                   "start-up stack) and identical relative arguments: exit status, messages and the whole output tree must be byte-identical; multi-file sets "
                                   "additionally run with %d argument orders: per-type .c/.h files must be identical. By-product (plain differential, no simulation): asn1c -E text "
                                   "re-parses and prints to itself; for the non-parameterised corpus modules the printed text compiles to the same per-type files. evaluations = "
                                   "compiler executions; non-trivial/distinct = distinct (module set, flags, heap base, stack shift) in which recycled chunks with junk were handed out" % (nseeds, nperm),
                           "samples": samples or ["(none)"], "exhaustive": False,
                           "runs": counters["runs"], "runs_per_hour": int(counters["runs"] / max(t_run, 1e-3) * 3600),
                           "simulated_time": "none: batch process, steps = compiler executions",
                           "fault_kinds_fired": {"distinct_heap_bases": len(fired["heap_base_values"]), "distinct_stack_shifts": len(fired["stack_shift_values"]),
                                                 "recycled_chunks_with_junk": fired["recycled_chunks"], "fresh_chunks": fired["fresh_chunks"], "argv_orders": fired["argv_orders"]},
                           "distinct_states": {"environments": len(distinct)}, "counters": dict(counters, **{"cases." + k: v for k, v in kinds.items()}),
                           "violation_signatures": {s: 1 for s in cand}, "known_findings_seen": known_seen,
                           "components_real": ["the whole asn1c compiler built from /repo (parser, fixer, printer, emitter)", "setarch -R (real ASLR off)"],
                           "components_stub": ["process environment: allocator arena, heap base, stack shift, stale memory (sim/envshim.c)"],
                           "build_s": round(t_build, 1), "search_s": round(t_run, 1)},
              "assumptions": ["only perturbations a second real run can exhibit are injected (no qsort tie or readdir permutation)",
                              "kernel-level differences (vDSO, locale) are outside", "the by-product clause is a plain differential check, not a simulation result",
                              "old-syntax modules (87-old-syntax-OK, rfc3280 PKIX1 *88) are outside the print/parse quantifier"],
              "wall_s": round(time.time() - t0, 2), "violations": len(violations)}
        os.makedirs(os.path.join(VERIF, "evidence"), exist_ok=True)
        json.dump(ev, open(os.path.join(VERIF, "evidence", "C12.json"), "w"), indent=1, sort_keys=True)
        log("[C12] %s tier: %d cases, %d compiler runs, %d distinct environments, %d violation(s), %.1fs" % (tier, len(cases), counters["runs"], len(distinct), len(violations), time.time() - t0))
        if rc == 0: print("OK property=C12 tier=%s evaluations=%d" % (tier, counters["runs"]))
        return rc
    finally:
        if not a.keep: shutil.rmtree(wdir, ignore_errors=True)
