CONFIG = dict(
    level="fault_enumeration",
    programs=[("Sim1", "default", 700, 7, 30000, 7), ("Sim2", "default", 1500, 2, 40000, 3),
              ("Sim3", "default", 1500, 2, 40000, 2), ("Sim1", "wide", 300, 2, 10000, 3),
              ("Sim3", "compound", 0, 0, 10000, 1), ("Sim4", "default", 200, 1, 10000, 1), ("LDAP", "compound", 0, 0, 20000, 2), ("Sim6", "default", 150, 1, 10000, 1), ("Sim7", "compound", 300, 1, 20000, 1)],
    budget_quick=60, budget_thorough=1500,
    eval_counter="c14.executions", nontrivial_set="c14.nontrivial_histories",
    rule="history = 2-8 operations over one structure slot (library-allocated or caller-allocated-and-zeroed) drawn from "
         "{decode-prefix(syntax,cut), decode-rest, decode-garbage (transport-damaged bytes, fresh or as continuation), reset, redecode, "
         "encode, tonew, check, print, free-contents, free}; pass 1 runs it fault-free and counts allocations per op, then the history is "
         "re-executed once for EVERY (op, k-th allocation) pair, single and sticky (sampled above the cap), and once for EVERY (encode op, k-th output callback invocation) with the callback failing from there on; thorough adds double faults. After every decode op the structure is walked against the ledger: a list never claims more room than its array block holds, a string never more octets than its buffer (inconsistent-structure). "
         "evaluations = history executions; a history is non-trivial when at least one injected allocation failure actually reached the "
         "library; distinct = distinct (program,type,value,mode,op list)",
    assumptions=["only documented uses are generated: a structure whose decode completed or failed is not decoded into again without a reset (the manual: free after RC_FAIL)",
                 "after an injected allocation failure an op may fail or return exactly the fault-free result; a different success is a violation",
                 "the ledger (link-time wrapped allocator) defines 'released exactly once'; ASan independently sees double frees and use-after-free",
                 "value equality = byte-equal DER and CANONICAL-XER re-encodings"],
    stubs=["allocator front with fault plan and ledger (delegates to the real allocator)", "history interpreter", "corrupting transport for garbage bytes"],
)
