#!/usr/bin/env python3
"""dev helper: build programs into a scratch dir. usage: devbuild.py DIR [Mod-config ...]"""
import sys, os
sys.path.insert(0, os.path.dirname(os.path.abspath(__file__)))
import build
wd = sys.argv[1]
progs = [tuple(a.split("-", 1)) for a in sys.argv[2:]] or [(m, "default") for m in build.CORPUS]
a, r = build.build_programs(wd, progs)
for k, v in r.items(): print(k, v)
