#!/bin/bash
# import_eval.sh <id>...: copy deliverables into /verif/seeded/<id> and evaluate against the quick check of the id's property
cd /verif
for i in "$@"; do
  [ -f /tmp/mut/$i-out/patch.diff ] || { echo "$i: no patch"; continue; }
  mkdir -p seeded/$i; rm -rf seeded/$i/demo; cp -r /tmp/mut/$i-out/patch.diff /tmp/mut/$i-out/demo /tmp/mut/$i-out/meta.json seeded/$i/ 2>/dev/null
  find seeded/$i -size +1M -delete
  tools/seeded_eval.sh $i ${i:0:3} 2>&1 | grep -v '^KNOWN' | cut -c1-260 | head -7
done
