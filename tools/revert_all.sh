#!/bin/bash
# revert_all.sh: sensitivity by reverted repairs. For every "fixed:" entry of KNOWN_FINDINGS.txt the repair commit is reverted
# (uncommitted) in the tree under test ($REPO, a git checkout; default /repo - nothing else may build from it meanwhile), the
# property's quick check is run WITHOUT the regression replays of findings/ (the search alone has to find it), and the revert is undone. One verdict line per entry; a check that stays silent is a MISS.
cd "$(dirname "$0")/.."
R=${REPO:-/repo}
grep '^fixed:' KNOWN_FINDINGS.txt | while read -r line; do
  prop=$(echo "$line" | sed -n 's/.*property=\([A-Z0-9]*\).*/\1/p'); c=$(echo "$line" | awk '{print $3}')
  git -C $R diff --quiet || { echo "$R has uncommitted changes"; exit 2; }
  if ! git -C $R revert -n $c >/dev/null 2>&1; then git -C $R revert --abort 2>/dev/null; git -C $R reset -q --hard; echo "$c $prop revert-conflict"; continue; fi
  rm -rf out/$prop
  VERIF_NO_REGRESSION_REPLAYS=1 ./check $prop --tier quick > /tmp/revert-$c.log 2>&1; rc=$?
  if grep -q '^VIOLATION' /tmp/revert-$c.log; then v="caught: $(grep -A1 '^VIOLATION' /tmp/revert-$c.log | grep -m1 'signature=' | sed 's/^ *//')"; else v="MISSED (rc=$rc)"; fi
  echo "$c $prop $v"
  git -C $R revert --abort 2>/dev/null; git -C $R reset -q --hard
done
