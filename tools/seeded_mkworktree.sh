#!/bin/bash
# mkmut.sh <name>: scratch git worktree of /repo HEAD with the (untracked) autotools build infrastructure copied in,
# minus the bulky test build output, so that `make` and the test suite can be run inside it.
set -e
d=/tmp/mut/$1
mkdir -p /tmp/mut
git -C /repo worktree add -q $d HEAD
rsync -a --exclude .git --exclude 'tests/tests-c-compiler/test-check-*' --exclude 'tests/tests-randomized/.tmp.*' --exclude '*.o' --exclude '*.lo' --exclude '*.la' --exclude '.libs' --exclude '*.log' --exclude '*.trs' --ignore-existing /repo/ $d/
echo $d
