"""Build pipeline: everything is rebuilt from $REPO's working tree (default /repo).

No object, config.h or binary found under $REPO is reused (DESIGN 3.1).
"""
import os, subprocess, sys, glob, shutil, hashlib
from concurrent.futures import ThreadPoolExecutor

VERIF = os.path.dirname(os.path.dirname(os.path.abspath(__file__)))
REPO = os.environ.get("REPO", "/repo")
JOBS = int(os.environ.get("VERIF_JOBS", "16"))

SAN_CFLAGS = ["-O1", "-g", "-fsanitize=address,undefined", "-fno-sanitize-recover=undefined",
              "-fno-sanitize=nonnull-attribute", "-fno-omit-frame-pointer"]
PLAIN_CFLAGS = ["-O1", "-g", "-fno-omit-frame-pointer"]
WRAPS = ["malloc", "calloc", "realloc", "free", "random", "__assert_fail"]


class BuildError(Exception):
    pass


def run(cmd, **kw):
    p = subprocess.run(cmd, stdout=subprocess.PIPE, stderr=subprocess.STDOUT, text=True, **kw)
    if p.returncode != 0:
        raise BuildError("command failed (%d): %s\n%s" % (p.returncode, " ".join(cmd), p.stdout[-4000:]))
    return p.stdout


def pmap(fn, items):
    with ThreadPoolExecutor(max_workers=JOBS) as ex:
        return list(ex.map(fn, items))


def compile_many(cc, srcs, objdir, cflags):
    """Compile srcs (list of paths) into objdir, return list of objects."""
    os.makedirs(objdir, exist_ok=True)
    def one(src):
        base = os.path.basename(src)
        obj = os.path.join(objdir, hashlib.md5(src.encode()).hexdigest()[:6] + "_" + os.path.splitext(base)[0] + ".o")
        cmd = [cc] + cflags + ["-c", src, "-o", obj]
        run(cmd)
        return obj
    return pmap(one, srcs)


def compiler_sources():
    srcs = []
    for d in ["libasn1common", "libasn1parser", "libasn1fix", "libasn1print", "libasn1compiler"]:
        for f in sorted(glob.glob(os.path.join(REPO, d, "*.c"))):
            if os.path.basename(f).startswith("check_"):
                continue
            srcs.append(f)
    srcs.append(os.path.join(REPO, "asn1c", "asn1c.c"))
    return srcs


def build_compiler(outdir, extra_srcs=(), ldflags=(), cflags=("-O1", "-g"), name="asn1c"):
    """Build the asn1c compiler from $REPO into outdir; returns binary path."""
    os.makedirs(outdir, exist_ok=True)
    inc = ["-I" + os.path.join(VERIF, "sim", "support")]
    for d in ["libasn1common", "libasn1parser", "libasn1fix", "libasn1print", "libasn1compiler"]:
        inc.append("-I" + os.path.join(REPO, d))
    flags = list(cflags) + ["-w", "-DHAVE_CONFIG_H", '-DDATADIR="%s"' % os.path.join(REPO, "skeletons")] + inc
    objs = compile_many("gcc", compiler_sources(), os.path.join(outdir, "obj-" + name), flags)
    if extra_srcs:
        objs += compile_many("gcc", list(extra_srcs), os.path.join(outdir, "obj-" + name + "-x"), list(cflags) + ["-w"])
    exe = os.path.join(outdir, name)
    run(["gcc"] + list(cflags) + objs + ["-o", exe, "-lm"] + list(ldflags))
    return exe


def gen_program(asn1c, modules, flags, outdir, cwd=None):
    """Run asn1c on module files; returns (ok, output)."""
    os.makedirs(outdir, exist_ok=True)
    cmd = [asn1c, "-S", os.path.join(REPO, "skeletons"), "-pdu=all"] + list(flags) + ["-D", outdir] + list(modules)
    p = subprocess.run(cmd, stdout=subprocess.PIPE, stderr=subprocess.STDOUT, text=True, cwd=cwd)
    return p.returncode == 0, p.stdout


def runtime_sources(gendir):
    return [f for f in sorted(glob.glob(os.path.join(gendir, "*.c")))
            if os.path.basename(f) != "converter-example.c"]


def build_runtime(gendir, objdir, cflags, cc="gcc", defines=()):
    flags = list(cflags) + ["-w", "-I" + gendir] + ["-D" + d for d in defines]
    return compile_many(cc, runtime_sources(gendir), objdir, flags)


HARNESS_C = ["alloc_seam.c", "abort_seam.c", "random_seam.c"]
HARNESS_CC = ["core.cc", "walker.cc", "ber.cc", "damage.cc", "transport.cc", "simrun.cc", "c05.cc", "c07.cc", "c14.cc", "c04.cc", "c15.cc"]


def build_harness(objdir, cflags, extra_defs=()):
    """Harness objects are program independent (they use only the skeleton headers)."""
    sim = os.path.join(VERIF, "sim")
    cs = [os.path.join(sim, f) for f in HARNESS_C if os.path.exists(os.path.join(sim, f))]
    ccs = [os.path.join(sim, f) for f in HARNESS_CC if os.path.exists(os.path.join(sim, f))]
    defs = ["-D" + d for d in extra_defs]
    inc = ["-I" + os.path.join(REPO, "skeletons"), "-I" + sim]
    o1 = compile_many("gcc", cs, objdir, list(cflags) + ["-Wall"] + inc + defs)
    o2 = compile_many("g++", ccs, objdir, list(cflags) + ["-std=c++17", "-Wall", "-Wno-unused-function"] + inc + defs)
    return o1 + o2


def link_simrun(objs, exe, cflags, wraps=WRAPS, libs=("-lm", "-lpthread")):
    wl = ["-Wl,--wrap=" + w for w in wraps]
    run(["g++"] + list(cflags) + objs + wl + ["-o", exe] + list(libs))
    return exe


CONFIGS = {
    "default": [],
    "wide": ["-fwide-types", "-findirect-choice"],
    "compound": ["-fcompound-names"],
}

CORPUS = ["Sim1", "Sim2", "Sim3", "Sim4"]
MODULE_CFLAGS = {"Sim6": ["-include", "NFrame.h"]}


def build_program(asn1c, workdir, modname, config, harness_objs, cflags=SAN_CFLAGS, modfile=None, cfgflags=None):
    """Generate + compile + link one simrun binary. Returns exe path."""
    tag = "%s-%s" % (modname, config)
    gendir = os.path.join(workdir, "gen-" + tag)
    if modfile is None and modname.startswith("Gen"):
        # seeded generated module (tools/gen_module.py); rejected / unbuildable ones are skipped and counted by the caller
        modfile = os.path.join(workdir, modname + ".asn1")
        with open(modfile, "w") as f:
            f.write(run([sys.executable, os.path.join(VERIF, "tools", "gen_module.py"), modname[3:], modname]))
    if modfile is None and modname == "LDAP":
        # a real stream protocol over BER: regenerated from the tracked RFC text with the repository's own extractor
        exd = os.path.join(workdir, "examples-src"); os.makedirs(exd, exist_ok=True)
        subprocess.run(["perl", os.path.join(REPO, "examples", "crfc2asn1.pl"), os.path.join(REPO, "examples", "rfc4511.txt")], cwd=exd,
                       stdout=subprocess.DEVNULL, stderr=subprocess.DEVNULL)
        modfile = os.path.join(exd, "rfc4511-Lightweight-Directory-Access-Protocol-V3.asn1")
        if not os.path.exists(modfile): raise BuildError("could not regenerate the LDAP module from rfc4511.txt")
    modfile = modfile or os.path.join(VERIF, "corpus", modname + ".asn1")
    ok, out = gen_program(asn1c, [modfile], CONFIGS[config] if cfgflags is None else cfgflags, gendir)
    if not ok:
        raise BuildError("asn1c rejected %s (%s):\n%s" % (modfile, config, out[-3000:]))
    # Sim6's generated headers include each other and only resolve when NFrame.h is entered first (an emitter limitation, C10's territory)
    objs = build_runtime(gendir, os.path.join(workdir, "obj-rt-" + tag), list(cflags) + MODULE_CFLAGS.get(modname, []))
    tagc = os.path.join(workdir, "tag-" + tag + ".c")
    with open(tagc, "w") as f:
        f.write('const char *sim_program = "%s";\n' % tag)
    objs += compile_many("gcc", [tagc], os.path.join(workdir, "obj-rt-" + tag), ["-O1"])
    # the repository's own stream loop, in-process (per program: it includes the generated directory's copy)
    objs += compile_many("gcc", [os.path.join(VERIF, "sim", "conv_embed.c")], os.path.join(workdir, "obj-rt-" + tag),
                         list(cflags) + MODULE_CFLAGS.get(modname, []) + ["-w", "-I" + gendir, "-DASN_PDU_COLLECTION", '-DCONV_SRC="%s"' % os.path.join(gendir, "converter-example.c")])
    exe = os.path.join(workdir, "simrun-" + tag)
    link_simrun(objs + list(harness_objs), exe, cflags)
    return exe


def build_programs(workdir, programs, cflags=SAN_CFLAGS, tagsuffix=""):
    """programs: list of (modname, config). Returns (asn1c, {tag: exe})."""
    with ThreadPoolExecutor(max_workers=2) as ex:
        fa = ex.submit(build_compiler, os.path.join(workdir, "asn1c-build"))
        fh = ex.submit(build_harness, os.path.join(workdir, "obj-harness" + tagsuffix), cflags)
        asn1c = fa.result(); hobjs = fh.result()
    res = {}
    SKIPPED.clear()
    def one(p):
        try:
            return ("%s-%s" % p, build_program(asn1c, workdir, p[0], p[1], hobjs, cflags))
        except BuildError as e:
            if p[0].startswith("Gen") or p[0] == "LDAP":          # C10's territory (not claimed): skip and count
                SKIPPED.append(("%s-%s" % p, str(e)[-400:]))
                return ("%s-%s" % p, None)
            raise
    with ThreadPoolExecutor(max_workers=6) as ex:
        for tag, exe in ex.map(one, programs):
            if exe: res[tag] = exe
    return asn1c, res


SKIPPED = []


if __name__ == "__main__":
    wd = sys.argv[1]
    a, r = build_programs(wd, [("Sim1", "default")])
    print(a, r)
