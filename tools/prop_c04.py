CONFIG = dict(
    level="exploration",
    valgrind_sample=240,
    programs=[("Sim1", "default", 2500, 7, 100000, 7), ("Sim2", "default", 4000, 2, 120000, 3),
              ("Sim3", "default", 4000, 2, 120000, 2), ("Sim1", "wide", 800, 2, 30000, 3),
              ("Sim3", "compound", 0, 0, 30000, 1), ("Sim4", "default", 400, 1, 30000, 1), ("LDAP", "compound", 300, 1, 40000, 2), ("Sim6", "default", 200, 1, 10000, 1), ("Sim7", "compound", 300, 1, 20000, 1)],
    budget_quick=60, budget_thorough=1500,
    eval_counter="c04.decodes", nontrivial_set="c04.damaged_streams",
    rule="per run: one value, its DER (optionally a BER variant) / OER / BASIC-XER / UPER encodings, each passed 16 (quick) or 48 "
         "(thorough) times through a corrupting transport (1-4 composed faults out of bitflip, overwrite, truncate, drop, dup, swap, insert, "
         "length blow-up, splice with another type's encoding, garbage) and delivered one-shot or in seeded chunks with torn "
         "retransmissions (bytes changing between deliveries); UPER also through uper_decode with skip/unused bits. After every decode: "
         "print, asn_check_constraints, re-encode with all five encoders, ASN_STRUCT_FREE, ledger check. evaluations = decode runs; "
         "non-trivial = the delivered stream differs from the valid encoding; distinct = distinct (program,type,syntax,faults,stream)",
    assumptions=["bounded claim: valid encodings carried over a faulty transport plus garbage segments; not coverage-guided fuzzing of arbitrary strings",
                 "memory errors and undefined behaviour are what gcc ASan+UBSan (the project's flags minus nonnull-attribute) report",
                 "termination = the watchdog (10 s without progress) does not fire"],
    stubs=["corrupting transport", "receiver loop", "null sink", "allocator ledger"],
)
