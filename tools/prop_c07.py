CONFIG = dict(
    level="fault_enumeration",
    programs=[("Sim1", "default", 1500, 8, 60000, 8), ("Sim2", "default", 2400, 2, 60000, 3),
              ("Sim3", "default", 1200, 1, 30000, 1), ("Sim1", "wide", 600, 2, 20000, 3),
              ("Sim2", "compound", 0, 0, 10000, 1), ("Sim4", "default", 320, 4, 10000, 2), ("LDAP", "compound", 0, 0, 20000, 2), ("Sim7", "compound", 200, 1, 10000, 1)],
    budget_quick=60, budget_thorough=1500,
    eval_counter="c07.ops", nontrivial_set="c07.nontrivial_subjects",
    rule="subject = (program, PDU type, value from asn_random_fill / seed file / all-zero structure, 0-2 damage operations applied "
         "through the public API); per subject and per encoder (DER, OER, UPER, BASIC-XER, CANONICAL-XER): fault-free asn_encode, then the "
         "sink failing at EVERY callback invocation index (sticky and transient; sampled above the cap), asn_encode_to_buffer for EVERY "
         "size 0..n+1 with an exact-size heap buffer, asn_encode_to_new_buffer fault-free and with EVERY allocation index failing. "
         "evaluations = encoder calls judged; a subject is non-trivial when at least one sink/buffer/allocation fault actually fired; "
         "distinct = distinct (program,type,value spec,damage ops)",
    assumptions=["errno==EIO is demanded only when the simulated sink really returned -1",
                 "after an injected allocation failure both NULL and an exact buffer are accepted",
                 "damage is limited to states reachable through the public C API (no dangling pointers, no size>0 with buf==NULL)",
                 "gcc ASan+UBSan (project flags minus nonnull-attribute) catch out-of-bounds writes into the exact-size buffers"],
    stubs=["sink callback", "exact-size output buffers", "allocator front (delegates to the real allocator)", "structure damage walker"],
)
