#!/bin/bash
# verify_seeded.sh <id>: demo on clean and patched tree, then the pinned suite on the patched worktree
id=$1
out=/verif/seeded/$id/verification.txt
{
echo "== demo on clean tree (expect exit 0)"
( cd /verif/seeded/$id/demo && timeout 1200 ./run.sh /tmp/mut/clean2 > /tmp/seeded-demo-$id-clean.log 2>&1; echo "exit=$?" ); tail -2 /tmp/seeded-demo-$id-clean.log | cut -c1-200
echo "== demo on patched tree (expect non-zero)"
( cd /verif/seeded/$id/demo && timeout 1200 ./run.sh /tmp/mut/$id > /tmp/seeded-demo-$id-patched.log 2>&1; echo "exit=$?" ); tail -2 /tmp/seeded-demo-$id-patched.log | cut -c1-200
echo "== pinned suite on patched tree (make -k check)"
( cd /tmp/mut/$id && make -j8 > /dev/null 2>&1; make -k check -j8 > /tmp/seeded-suite-$id.log 2>&1; grep -h ':test-result:' $(find . -name '*.trs') | sort | uniq -c; grep -l ':test-result: FAIL' $(find . -name '*.trs') )
} > $out 2>&1
cat $out
