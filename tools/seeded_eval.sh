#!/bin/bash
# seeded_eval.sh <seeded-id> <prop> [<prop>...]: apply seeded/<id>/patch.diff to /repo, run the quick checks, undo.
id=$1; shift
patch=/verif/seeded/$id/patch.diff
cd /verif
git -C /repo diff --quiet || { echo "/repo has uncommitted changes"; exit 2; }
git -C /repo apply --check $patch || { echo "patch does not apply"; exit 2; }
git -C /repo apply $patch
trap 'git -C /repo checkout -- . ; git -C /repo clean -fdq -- skeletons libasn1compiler libasn1fix libasn1parser libasn1print libasn1common asn1c 2>/dev/null' EXIT
for p in "$@"; do
  echo "=== $id under $p"
  rm -rf /verif/out/$p
  ./check $p --tier quick > /tmp/seeded-$id-$p.log 2>&1
  echo "rc=$?"; grep -A2 '^VIOLATION\|^HARNESS\|^KNOWN' /tmp/seeded-$id-$p.log | head -12; tail -2 /tmp/seeded-$id-$p.log
done
