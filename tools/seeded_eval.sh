#!/bin/bash
# seeded_eval.sh <seeded-id> <prop> [<prop>...]: apply seeded/<id>/patch.diff to the tree under test, run the quick checks, undo.
# The tree is $REPO (default /repo); nothing else may build from it while this runs.
id=$1; shift
V=$(cd "$(dirname "$0")/.." && pwd)
R=${REPO:-/repo}
patch=$V/seeded/$id/patch.diff
cd $V
(cd $R && git apply --check $patch) || { echo "patch does not apply"; exit 2; }
(cd $R && git apply $patch)
trap '(cd $R && git apply -R $patch); git -C $V checkout -- evidence 2>/dev/null' EXIT
for p in "$@"; do
  echo "=== $id under $p"
  rm -rf $V/out/$p
  ./check $p --tier quick > /tmp/seeded-$id-$p.log 2>&1
  echo "rc=$?"; grep -A2 '^VIOLATION\|^HARNESS\|^KNOWN' /tmp/seeded-$id-$p.log | head -12; tail -2 /tmp/seeded-$id-$p.log
done
