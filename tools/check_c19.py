"""C19 check: thread simulation (clang -fsanitize=thread objects linked against sim/tsanlite.c)."""
import os, sys, json, time, shutil, subprocess, re
sys.path.insert(0, os.path.dirname(os.path.abspath(__file__)))
import build, orch
from orch import log

VERIF = build.VERIF
PROP = "C19"
# (module, config, runs_quick, workers_quick, runs_thorough, workers_thorough)
PROGRAMS = [("Sim1", "default", 500, 8, 100000, 8), ("Sim2", "default", 250, 3, 40000, 3), ("Sim3", "default", 120, 2, 20000, 2),
            ("Sim1", "wide", 100, 3, 30000, 4)]
TSAN_CFLAGS = ["-O1", "-g", "-fsanitize=thread", "-fno-omit-frame-pointer"]
HARNESS_CFLAGS = ["-O1", "-g", "-fno-omit-frame-pointer"]
WRAPS = ["malloc", "calloc", "realloc", "free", "random", "__assert_fail", "memcpy", "memmove", "memset", "memcmp", "bcmp", "memchr", "strlen",
         "strtod", "qsort", "gmtime_r", "localtime_r", "mktime", "timegm", "vsnprintf", "snprintf", "pthread_mutex_lock", "pthread_mutex_unlock",
         "gmtime", "localtime", "asctime", "ctime", "strtok", "rand"]    # non-reentrant: modelled as writes to hidden static state
# libc symbols the instrumented runtime may import; anything else makes the build fail loudly (DESIGN 5.6)
KNOWN_IMPORTS = set("""bcmp calloc fflush fprintf fputc free fwrite gmtime_r ilogb ldexp localtime_r malloc memchr memcmp memcpy memmove memset mktime
 qsort random realloc snprintf strerror strlen strtod timegm vfprintf vsnprintf __assert_fail __errno_location stdout stderr strcmp strncmp strchr
 sprintf abort getenv strtol strtoul memcpy __stack_chk_fail strcpy strncpy strcasecmp tolower toupper isalnum __ctype_b_loc modf frexp pow floor ceil
 fabs log10 copysign finite isnan isinf __isnan __isinf __finite scalbn lrint rint strtoimax strtoumax
 gmtime localtime asctime ctime strtok rand""".split())


def build_programs(wdir, progs):
    sim = os.path.join(VERIF, "sim")
    with build.ThreadPoolExecutor(max_workers=2) as ex:
        fa = ex.submit(build.build_compiler, os.path.join(wdir, "asn1c-build"))
        asn1c = fa.result()
    inc = ["-I" + os.path.join(build.REPO, "skeletons"), "-I" + sim]
    hc = build.compile_many("gcc", [os.path.join(sim, f) for f in ("tsanlite.c", "c19_seams.c", "abort_seam.c", "random_seam.c")],
                            os.path.join(wdir, "obj-h"), HARNESS_CFLAGS + ["-Wall"] + inc)
    hcc = build.compile_many("g++", [os.path.join(sim, f) for f in ("core.cc", "walker.cc", "ber.cc", "transport.cc", "c19main.cc")],
                             os.path.join(wdir, "obj-h"), HARNESS_CFLAGS + ["-std=c++17", "-Wall", "-Wno-unused-function"] + inc)
    exes = {}
    def one(p):
        mod, conf = p
        tag = "%s-%s" % (mod, conf)
        gendir = os.path.join(wdir, "gen-" + tag)
        ok, out = build.gen_program(asn1c, [os.path.join(VERIF, "corpus", mod + ".asn1")], build.CONFIGS[conf], gendir)
        if not ok: raise build.BuildError("asn1c rejected %s: %s" % (tag, out[-2000:]))
        objs = build.build_runtime(gendir, os.path.join(wdir, "obj-rt-" + tag), TSAN_CFLAGS, cc="clang")
        # a new libc dependency must not silently escape the race detector
        und = subprocess.run("nm -u " + " ".join(objs) + " | awk 'NF==2{print $2}' | sort -u", shell=True, stdout=subprocess.PIPE, text=True).stdout.split()
        defined = set(subprocess.run("nm --defined-only " + " ".join(objs) + " | awk 'NF==3{print $3}'", shell=True, stdout=subprocess.PIPE, text=True).stdout.split())
        unknown = [u for u in und if u not in defined and not u.startswith("__tsan_") and u not in KNOWN_IMPORTS]
        if unknown: raise build.BuildError("instrumented runtime imports libc symbols the race detector does not model: %s" % unknown)
        tagc = os.path.join(wdir, "tag-" + tag + ".c")
        open(tagc, "w").write('const char *sim_program = "%s";\n' % tag)
        objs += build.compile_many("gcc", [tagc], os.path.join(wdir, "obj-rt-" + tag), ["-O1"])
        exe = os.path.join(wdir, "sim19-" + tag)
        build.run(["g++"] + HARNESS_CFLAGS + objs + hc + hcc + ["-Wl,--wrap=" + w for w in WRAPS] + ["-o", exe, "-lm", "-lpthread"])
        return tag, exe
    with build.ThreadPoolExecutor(max_workers=4) as ex:
        for tag, exe in ex.map(one, progs): exes[tag] = exe
    return exes


def resolve_sites(exe, text):
    """+0xOFFSET image-relative addresses -> symbol names (for signatures that survive rebuilds)."""
    try:
        base = int(subprocess.check_output("nm %s | grep ' __executable_start$'" % exe, shell=True, text=True).split()[0], 16)
    except Exception:
        return text
    def rep(m):
        a = base + int(m.group(1), 16)
        try:
            out = subprocess.check_output(["addr2line", "-f", "-e", exe, hex(a)], text=True).split("\n")
            fn = out[0]
            if fn and fn != "??": return fn
            sym = subprocess.check_output("nm -n %s | awk '$1 <= \"%016x\"' | tail -1" % (exe, a), shell=True, text=True).split()
            return sym[-1] if sym else m.group(0)
        except Exception:
            return m.group(0)
    return re.sub(r"\+0x([0-9a-f]+)", rep, text)


def main(a):
    tier, seed = a.tier, a.seed
    t0 = time.time()
    wdir = os.path.join(VERIF, ".build", "C19-%d" % os.getpid())
    shutil.rmtree(wdir, ignore_errors=True); os.makedirs(wdir)
    outdir = os.path.join(VERIF, "out", PROP)
    rc = 0
    try:
        opened, fixed = orch.load_known(PROP)
        if a.replay:
            text = open(a.replay).read(); pg = orch.plan_program(text)
            exes = build_programs(wdir, [tuple(pg.split("-", 1))])
            r = orch.run_replay(exes[pg], os.path.abspath(a.replay))
            if r["violated"]:
                print("VIOLATION property=%s replay=%s" % (PROP, a.replay)); print("  signature=%s\n  %s" % (resolve_sites(exes[pg], r["sig"]), resolve_sites(exes[pg], r["detail"])))
                return 1
            print("OK replay property=%s no violation" % PROP); return 0
        progs = [(m, c) for (m, c, rq, wq, rt, wt) in PROGRAMS if (rq if tier == "quick" else rt) > 0]
        need = set()
        for e in opened + fixed:
            if e["replay"] and os.path.exists(e["replay"]):
                pg = orch.plan_program(open(e["replay"]).read())
                if pg and tuple(pg.split("-", 1)) not in progs: progs.append(tuple(pg.split("-", 1)))
        try:
            exes = build_programs(wdir, progs)
        except build.BuildError as e:
            log("BUILD FAILED:\n" + str(e)); return 2
        t_build = time.time() - t0
        log("[C19] built %d programs in %.1fs" % (len(exes), t_build))
        if a.selftest == "determinism":
            bad = total = 0
            for tag, exe in sorted(exes.items()):
                maps = []
                for nw in (1, 1, 4):
                    m = {}
                    procs = [subprocess.Popen([exe, "--seed", str(seed), "--start", str(j), "--stride", str(nw), "--count", os.environ.get("VERIF_DET_RUNS", "150"), "--runlog"],
                                              stdout=subprocess.PIPE, stderr=subprocess.DEVNULL, text=True) for j in range(nw)]
                    for p in procs:
                        out, _ = p.communicate()
                        for l in out.splitlines():
                            if l.startswith("RUN "): _, i, h = l.split(); m[int(i)] = h
                    maps.append(m)
                for i in maps[0]:
                    total += 1
                    if not (maps[0].get(i) == maps[1].get(i) == maps[2].get(i)): bad += 1; log("DIVERGENCE %s run %d" % (tag, i))
            print("determinism property=C19 runs=%d divergent=%d" % (total, bad))
            return 0 if bad == 0 and total else 2
        violations, suppressed, known_seen = [], set(), []
        for e in fixed:
            if not e["replay"] or not os.path.exists(e["replay"]): continue
            pg = orch.plan_program(open(e["replay"]).read()); r = orch.run_replay(exes[pg], e["replay"])
            if r["violated"]:
                print("VIOLATION property=%s replay=%s" % (PROP, e["replay"])); print("  (a finding recorded as fixed has returned: %s)" % resolve_sites(exes[pg], r["sig"]))
                violations.append(r["sig"])
        for e in opened:
            if not e["replay"] or not os.path.exists(e["replay"]): continue
            pg = orch.plan_program(open(e["replay"]).read()); r = orch.run_replay(exes[pg], e["replay"])
            if r["violated"]:
                print(e["text"]); suppressed.add(resolve_sites(exes[pg], r["sig"])); known_seen.append(e["text"])
                if e["sig"]: suppressed.add(e["sig"])
        jobs = []
        for (m, c, rq, wq, rt, wt) in PROGRAMS:
            runs, nw = (rq, wq) if tier == "quick" else (rt, wt)
            if runs > 0 and nw > 0: jobs.append((exes["%s-%s" % (m, c)], "%s-%s" % (m, c), runs, nw, []))
        budget = 60 if tier == "quick" else 1500
        t1 = time.time()
        lines, deaths = orch.run_workers(jobs, PROP, seed, tier, wdir, budget)
        t_run = time.time() - t1
        counters, viol_counts, samples, cand = {}, {}, [], {}
        log_hash = 0
        for d in lines:
            if d.get("type") == "summary":
                for k, v in d["counters"].items(): counters[k] = counters.get(k, 0) + v
                log_hash = (log_hash + int(d["log_hash"], 16)) & 0xffffffffffffffff
                for s in d["samples"]:
                    if len(samples) < 4: samples.append(s)
                for k, v in d["violations"].items(): viol_counts[k] = viol_counts.get(k, 0) + v
            elif d.get("type") == "violation":
                pg = orch.plan_program(d["plan"]); exe = exes.get(pg)
                sig = resolve_sites(exe, d["sig"])
                if sig not in cand: cand[sig] = (exe, d["plan"], resolve_sites(exe, d["detail"]))
        for dth in deaths:
            sig = orch.classify_death(PROP, dth["rc"], dth["stderr"], dth["plan"])
            viol_counts[sig] = viol_counts.get(sig, 0) + 1
            if dth["plan"].strip() and sig not in cand: cand[sig] = (dth["exe"], dth["plan"], orch.first_error_line(dth["stderr"]))
            elif not dth["plan"].strip(): log("worker died outside a run: " + dth["stderr"][-800:]); rc = max(rc, 2)
        distinct = orch.union_distinct(wdir)
        os.makedirs(outdir, exist_ok=True)
        for sig in sorted(cand):
            if sig in suppressed: continue
            exe, plan, detail = cand[sig]
            path = os.path.join(outdir, orch.sig_hash(sig) + ".replay")
            open(path, "w").write("# signature %s\n" % sig + plan)
            r1 = orch.run_replay(exe, path); r2 = orch.run_replay(exe, path)
            if not (r1["violated"] and r2["violated"] and r1["sig"] == r2["sig"] and r1["log_hash"] == r2["log_hash"]):
                print("HARNESS-NONDETERMINISTIC property=%s signature=%s replay=%s" % (PROP, sig, path)); rc = max(rc, 2); continue
            print("VIOLATION property=%s replay=%s" % (PROP, path)); print("  signature=%s\n  %s" % (sig, detail))
            violations.append(sig)
        if violations: rc = max(rc, 1)
        evals = counters.get("c19.schedules", 0)
        ev = {"property_id": PROP, "tier": tier, "seed": seed, "level": "exploration",
              "coverage": {"evaluations": int(evals), "distinct_nontrivial": int(distinct.get("c19.interleavings", 0)),
                           "rule": "case = 2-4 caller threads, each with a seeded script of 3-10 calls {decode one-shot/chunked (DER,OER,UPER,XER,CXER), encode x5, "
                                   "asn_check_constraints, print, compare, free} over its own structures, types drawn from a small shared pool so descriptors are shared; "
                                   "16 seeded schedules per case (random preemption with mean gap 8..512 switch points, or PCT with 1-3 priority change points); "
                                   "switch points = every compiler-instrumented memory access of the runtime, allocator calls, sink callbacks, chunk deliveries. "
                                   "evaluations = schedules executed; non-trivial/distinct = distinct interleaving hashes (thread, switch ordinal sequence) with at least one preemption",
                           "samples": samples or ["(none)"], "exhaustive": False,
                           "runs": counters.get("runs", 0), "runs_per_hour": int(counters.get("runs", 0) / max(t_run, 1e-3) * 3600),
                           "evaluations_per_hour": int(evals / max(t_run, 1e-3) * 3600),
                           "simulated_time": "no clock: %d switch points, %d preemptions" % (counters.get("c19.switch_points", 0), counters.get("c19.fired.preemptions", 0)),
                           "fault_kinds_fired": {k: v for k, v in counters.items() if ".fired." in k},
                           "distinct_states": distinct, "counters": counters, "violation_signatures": viol_counts, "known_findings_seen": known_seen,
                           "program_list": [j[1] for j in jobs],
                           "components_real": ["skeletons + emitted tables compiled with clang -fsanitize=thread", "asn1c compiler built from /repo", "real pthreads, real libc"],
                           "components_stub": ["tsanlite runtime (scheduler + vector-clock race detector) instead of the TSan runtime", "wrapped allocator and libc range functions", "hashing sink"],
                           "event_log_hash_sum": "%016x" % log_hash, "build_s": round(t_build, 1), "search_s": round(t_run, 1)},
              "assumptions": ["accesses inside uninstrumented libc are seen only through the wrapped range functions (memcpy, memset, memcmp, strlen, snprintf, qsort, strtod, time functions)",
                              "a race is reported only between accesses unordered by thread start/join, pthread mutexes, or allocator hand-over",
                              "values and inputs are generated before the threads start (asn_random_fill uses the process-wide random() and is not part of the property)"],
              "wall_s": round(time.time() - t0, 2), "violations": len(violations)}
        os.makedirs(os.path.join(VERIF, "evidence"), exist_ok=True)
        json.dump(ev, open(os.path.join(VERIF, "evidence", "C19.json"), "w"), indent=1, sort_keys=True)
        log("[C19] %s tier: %d cases, %d schedules, %d distinct interleavings, %d violation(s), %.1fs" % (tier, counters.get("c19.cases", 0), evals, distinct.get("c19.interleavings", 0), len(violations), time.time() - t0))
        if rc == 0: print("OK property=C19 tier=%s evaluations=%d" % (tier, evals))
        return rc
    finally:
        if not a.keep: shutil.rmtree(wdir, ignore_errors=True)
