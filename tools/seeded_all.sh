#!/bin/bash
# seeded_all.sh: re-run the whole seeded-change campaign (quick checks) and print one verdict line per change.
# Uses $REPO (default /repo) itself (apply / check / undo), so nothing else may build from /repo while it runs.
cd "$(dirname "$0")/.."
for d in seeded/*/; do
  id=$(basename $d); [ -f $d/patch.diff ] || continue
  prop=${id:0:3}
  out=$(tools/seeded_eval.sh $id $prop 2>&1)
  if echo "$out" | grep -q '^VIOLATION'; then v="caught: $(echo "$out" | grep -A1 '^VIOLATION' | grep -m1 'signature=' | sed 's/^ *//')"; else v="MISSED"; fi
  echo "$id $prop $v"
done
