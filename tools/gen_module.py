#!/usr/bin/env python3
"""Seeded grammar-based generator of ASN.1 modules over the type algebra asn1c supports.
usage: gen_module.py <seed> <ModuleName> > file.asn1
Only tag-safe modules are emitted (AUTOMATIC TAGS); constructs of DESIGN Appendix B are avoided.
"""
import random, sys


class Gen:
    def __init__(self, seed, name):
        self.r = random.Random(seed)
        self.name = name
        self.types = []          # (name, text)
        self.n_anon = 0
        # tagging environment: mostly AUTOMATIC; otherwise every member carries a context tag, except inline CHOICE members,
        # which stay untagged (their alternatives are tagged [50+j]) so that decoders must find them through the tag table
        self.tagging = self.r.choice(["AUTOMATIC", "AUTOMATIC", "AUTOMATIC", "EXPLICIT", "IMPLICIT"])
        self.choice_base = 0

    def ident(self, prefix, i):
        self.n_anon += 1                      # globally unique identifiers: equal member names of nested types clash without -fcompound-names
        return "%s%d" % (prefix, self.n_anon)

    def int_constraint(self):
        r = self.r
        c = r.random()
        if c < 0.25: return ""
        if c < 0.45: return " (0..%d)" % r.choice([1, 7, 15, 255, 256, 65535, 65536, 4294967295])
        if c < 0.6: return " (%d..%d)" % (-r.choice([1, 8, 128, 129, 32768, 2147483648]), r.choice([0, 7, 127, 128, 32767, 2147483647]))
        if c < 0.7: return " (%d..MAX)" % r.choice([0, 1, -5])
        if c < 0.8: return " (1..%d, ...)" % r.choice([2, 16, 300])
        if c < 0.84: return " (%d)" % r.choice([0, 5, 1000])
        if c < 0.88: return " (MIN..%d)" % r.choice([0, 100])
        # set arithmetic in which the parentheses matter
        if c < 0.92: return " ((0..10 | 20..30) ^ (5..25))"
        if c < 0.95: return " ((1..%d) EXCEPT (3 | 5..6))" % r.choice([10, 50])
        if c < 0.98: return " (0..100) (10..90)"
        return " ((-5..-1) | (1..5))"

    def size_constraint(self, big=False):
        r = self.r
        c = r.random()
        if c < 0.35: return ""
        lo = r.choice([0, 0, 1, 2])
        hi = lo + r.choice([0, 1, 3, 6, 20] + ([200] if big else []))
        if c < 0.5: return " (SIZE(%d))" % hi
        if c < 0.85: return " (SIZE(%d..%d))" % (lo, hi)
        return " (SIZE(%d..%d, ...))" % (lo, hi)

    def primitive(self):
        r = self.r
        k = r.randrange(20)
        if k == 0: return "BOOLEAN"
        if k in (1, 2, 3): return "INTEGER" + self.int_constraint()
        if k == 4: return "ENUMERATED { a%d(0), b%d(1), c%d(%d)%s }" % (k, k, k, r.choice([2, 5, 100]), r.choice(["", ", ...", ", ..., d(%d)" % r.choice([7, 200])]))
        if k == 5: return "REAL"
        if k == 6: return "NULL"
        if k == 7: return "BIT STRING" + self.size_constraint()
        if k == 8: return "BIT STRING { x(0), y(%d), z(%d) }" % (r.choice([1, 3]), r.choice([4, 9, 17]))
        if k in (9, 10): return "OCTET STRING" + self.size_constraint(True)
        if k == 11: return "OBJECT IDENTIFIER"
        if k == 12: return "RELATIVE-OID"
        if k == 13: return "UTF8String" + self.size_constraint()
        if k == 14: return "IA5String" + r.choice(["", " (FROM(\"a\"..\"z\"))", " (FROM(\"0\"..\"9\" | \"A\"..\"F\"))"]) + self.size_constraint()
        if k == 15: return r.choice(["NumericString", "PrintableString", "VisibleString"]) + self.size_constraint()
        if k == 16: return r.choice(["BMPString", "UniversalString"]) + self.size_constraint()
        if k == 17: return r.choice(["GeneralizedTime", "UTCTime"])
        if k == 18: return "INTEGER { one(1), two(2) }" + r.choice(["", " (0..3)"])
        return "OCTET STRING"

    def default_for(self, t):
        if t == "BOOLEAN": return " DEFAULT " + self.r.choice(["TRUE", "FALSE"])
        if t == "INTEGER": return " DEFAULT %d" % self.r.choice([0, 5, 17, 100000])   # negative defaults hit an emitter bug (C10 territory)
        if t.startswith("INTEGER (0.."): return " DEFAULT 1"
        return None

    def member_type(self, depth, refs):
        r = self.r
        c = r.random()
        if refs and c < 0.25: return r.choice(refs), True
        if depth < 2 and c < 0.45: return self.constructed(depth + 1, refs), False
        return self.primitive(), False

    def constructed(self, depth, refs):
        r = self.r
        k = r.randrange(10)
        if k < 4:   # SEQUENCE / SET
            kw = "SEQUENCE" if k < 3 else "SET"
            n = r.randrange(1, 6)
            parts = []
            ext_at = r.randrange(1, n + 1) if (r.random() < 0.4) else None
            opened_group = False
            for i in range(n):
                if ext_at is not None and i == ext_at:
                    parts.append("...")
                t, isref = self.member_type(depth, refs)
                suffix = ""
                in_ext = ext_at is not None and i >= ext_at
                d = self.default_for(t)
                x = r.random()
                if in_ext: suffix = " OPTIONAL" if x < 0.7 or kw == "SET" else ""
                elif d and x < 0.25: suffix = d
                elif x < 0.55: suffix = " OPTIONAL"
                tag = ""
                if self.tagging != "AUTOMATIC" and not t.startswith("CHOICE {"): tag = "[%d] " % i
                parts.append("%s %s%s%s" % (self.ident("m", i), tag, t, suffix))
            if ext_at is not None and ext_at == n: parts.append("...")
            return "%s { %s }" % (kw, ", ".join(parts))
        if k < 6:   # CHOICE
            n = r.randrange(2, 5)
            parts = []
            ext_at = r.randrange(1, n + 1) if r.random() < 0.35 else None
            base = 50 if depth > 0 else 0
            if self.tagging != "AUTOMATIC" and depth > 0:
                self.choice_base += 10; base = 40 + self.choice_base
            for i in range(n):
                if ext_at is not None and i == ext_at: parts.append("...")
                t, isref = self.member_type(2 if self.tagging != "AUTOMATIC" else depth, refs)   # no CHOICE directly inside an untagged CHOICE
                tag = "[%d] " % (base + i) if self.tagging != "AUTOMATIC" else ""
                parts.append("%s %s%s" % (self.ident("c", i), tag, t))
            if ext_at is not None and ext_at == n: parts.append("...")
            return "CHOICE { %s }" % ", ".join(parts)
        # SEQUENCE OF / SET OF; the element is never itself an inline SIZE-constrained collection (Appendix B)
        kw = "SEQUENCE" if k < 9 else "SET"
        t, isref = self.member_type(2, refs)   # depth 2: primitive or reference only
        return "%s%s OF %s" % (kw, self.size_constraint().replace(" (SIZE", " (SIZE") if r.random() < 0.6 else "", t)

    def module(self):
        r = self.r
        n = r.randrange(4, 9)
        names = ["G%s%d" % (self.name[-1] if self.name[-1].isdigit() else "x", i) for i in range(n)]
        out = []
        for i, nm in enumerate(names):
            refs = names[:i]           # only backward references: no uncontrolled recursion
            body = self.constructed(0, refs) if r.random() < 0.8 else self.primitive()
            out.append("  %s ::= %s" % (nm, body))
        # one controlled recursion through OPTIONAL and one through SEQUENCE OF
        if self.tagging == "AUTOMATIC":
            out.append("  %sRec ::= SEQUENCE { v INTEGER (0..7), next %sRec OPTIONAL, tail SEQUENCE (SIZE(0..2)) OF %s }" % (names[0], names[0], names[r.randrange(n)]))
        else:
            out.append("  %sRec ::= SEQUENCE { v [0] INTEGER (0..7), next [1] %sRec OPTIONAL, tail [2] SEQUENCE (SIZE(0..2)) OF %s }" % (names[0], names[0], names[r.randrange(n)]))
        return "%s DEFINITIONS %s TAGS ::= BEGIN\n\n%s\n\nEND\n" % (self.name, self.tagging, "\n".join(out))


if __name__ == "__main__":
    seed = int(sys.argv[1]); name = sys.argv[2] if len(sys.argv) > 2 else "Gen%d" % seed
    sys.stdout.write(Gen(seed, name).module())
