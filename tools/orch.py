"""Orchestrator for simrun-based checks: build, known findings, workers, crash attribution,
replay gate, minimisation, evidence."""
import os, sys, json, time, subprocess, re, hashlib, shutil, struct, array, glob

sys.path.insert(0, os.path.dirname(os.path.abspath(__file__)))
import build

VERIF = build.VERIF
KNOWN = os.path.join(VERIF, "KNOWN_FINDINGS.txt")
VALUES = os.path.join(VERIF, "corpus", "values")
ST_OPS = 6 << 20


def log(*a):
    print(*a, file=sys.stderr, flush=True)


# ---------------------------------------------------------------- known findings
def load_known(prop):
    """returns (open_entries, fixed_entries); each {sig, replay, text}"""
    opened, fixed = [], []
    if not os.path.exists(KNOWN):
        return opened, fixed
    for line in open(KNOWN):
        line = line.strip()
        if not line or line.startswith("#"):
            continue
        m = re.match(r"^(KNOWN-FINDING:|fixed:)\s+property=(\S+)\s+(.*)$", line)
        if not m or m.group(2) != prop:
            continue
        rest = m.group(3)
        ent = {"text": line, "sig": None, "replay": None, "commit": None}
        ms = re.search(r"signature=(\S+)", rest)
        mr = re.search(r"replay=(\S+)", rest)
        mc = re.match(r"^([0-9a-f]{7,40})\s", rest)
        if ms: ent["sig"] = ms.group(1)
        if mr: ent["replay"] = os.path.join(VERIF, mr.group(1))
        if mc: ent["commit"] = mc.group(1)
        (opened if m.group(1) == "KNOWN-FINDING:" else fixed).append(ent)
    return opened, fixed


# ---------------------------------------------------------------- running simrun
def classify_death(prop, rc, stderr_text, plan_text):
    """signature for a run that killed the process"""
    opname = ""
    m = re.search(r"^template (\S+)", plan_text or "", re.M) or re.search(r"^syntax (\S+)", plan_text or "", re.M)
    if m: opname = m.group(1)
    if rc == 78 or "SIM-HANG" in stderr_text:
        return "%s/hang/%s/no-progress" % (prop, opname or "-")
    kind = "crash"
    func = "?"
    m = re.search(r"ERROR: AddressSanitizer: ([a-zA-Z0-9_-]+)", stderr_text)
    if m: kind = "asan-" + m.group(1)
    elif "runtime error:" in stderr_text:
        m2 = re.search(r"runtime error: ([a-z A-Z-]+?)(?: of| within| for| to| by|:|\d|$)", stderr_text)
        kind = "ubsan-" + (m2.group(1).strip().replace(" ", "-") if m2 else "error")
    elif "SIM-SEGV" in stderr_text:
        kind = "sigsegv"
    elif rc < 0:
        kind = "signal-%d" % (-rc)
    # first frame inside repo/generated code (not the harness, not libc/asan)
    for fm in re.finditer(r"#\d+ 0x[0-9a-f]+ in (\S+) (\S+)", stderr_text):
        fn, loc = fm.group(1), fm.group(2)
        if "/verif/sim/" in loc or "sim/" in loc and "gen-" not in loc: continue
        if "gen-" in loc or "/skeletons/" in loc:
            func = fn
            break
    return "%s/%s/%s/%s" % (prop, kind, opname or "-", func)


def run_replay(exe, planfile, timeout=120, extra=()):
    """returns dict(violated, skipped, sig, detail, log_hash, rc)"""
    try:
        p = subprocess.run([exe, "--replay", planfile, "--values", VALUES] + list(extra), stdout=subprocess.PIPE,
                           stderr=subprocess.PIPE, text=True, errors="replace", timeout=timeout)
    except subprocess.TimeoutExpired:
        prop = plan_prop(open(planfile).read())
        return dict(violated=True, skipped=False, sig="%s/hang/-/timeout" % prop, detail="replay timed out", log_hash="", rc=-9)
    for line in p.stdout.splitlines():
        if line.startswith('{"type":"replay"'):
            d = json.loads(line)
            return dict(violated=d["violated"], skipped=d["skipped"], sig=d["sig"], detail=d["detail"], log_hash=d["log_hash"], rc=p.returncode)
    text = open(planfile).read()
    prop = plan_prop(text)
    if p.returncode == 64:
        return dict(violated=False, skipped=True, sig="", detail="unusable plan: " + p.stderr[-200:], log_hash="", rc=64)
    sig = classify_death(prop, p.returncode, p.stderr, text)
    return dict(violated=True, skipped=False, sig=sig, detail=first_error_line(p.stderr), log_hash="dead:%d" % p.returncode, rc=p.returncode,
                stderr=p.stderr[-6000:])


def first_error_line(stderr_text):
    for l in stderr_text.splitlines():
        if "ERROR: AddressSanitizer" in l or "runtime error:" in l or "SIM-" in l:
            return l.strip()[:300]
    return (stderr_text.strip().splitlines() or ["process died"])[-1][:300]


def plan_prop(text):
    m = re.search(r"^property (\S+)", text, re.M)
    return m.group(1) if m else "?"


def plan_program(text):
    m = re.search(r"^program (\S+)", text, re.M)
    return m.group(1) if m else None


def read_status(path):
    try:
        d = open(path, "rb").read()
    except OSError:
        return None, ""
    if len(d) < ST_OPS + 1:
        return None, ""
    idx = struct.unpack("<Q", d[:8])[0]
    head = d[8:d.index(b"\0", 8)].decode(errors="replace")
    ops = d[ST_OPS:d.index(b"\0", ST_OPS)].decode(errors="replace")
    return idx, head + ops


class Worker:
    def __init__(self, exe, prop, seed, tier, start, stride, count, wdir, tag, budget, extra=()):
        self.exe, self.prop, self.seed, self.tier = exe, prop, seed, tier
        self.start, self.stride, self.count = start, stride, count
        self.wdir, self.tag, self.budget, self.extra = wdir, tag, budget, list(extra)
        self.status = os.path.join(wdir, "status-" + tag)
        self.out = os.path.join(wdir, "out-" + tag)
        self.err = os.path.join(wdir, "err-" + tag)
        self.gen = 0
        self.proc = None
        self.t0 = time.time()
        self.launch()

    def launch(self):
        self.gen += 1
        remaining = max(5.0, self.budget - (time.time() - self.t0))
        cmd = [self.exe, "--prop", self.prop, "--seed", str(self.seed), "--tier", self.tier, "--start", str(self.start),
               "--stride", str(self.stride), "--count", str(self.count), "--status", self.status, "--values", VALUES,
               "--distinct-dir", self.wdir, "--tag", "%s.%d" % (self.tag, self.gen), "--budget", "%.1f" % remaining] + self.extra
        self.fo = open(self.out, "ab")
        self.fe = open(self.err + ".%d" % self.gen, "wb")
        self.proc = subprocess.Popen(cmd, stdout=self.fo, stderr=self.fe)

    def poll(self):
        return self.proc.poll()

    def close(self):
        self.fo.close(); self.fe.close()


def run_workers(jobs, prop, seed, tier, wdir, budget):
    """jobs: list of (exe, tag, count, nworkers, extra). Returns (result_lines, deaths)."""
    workers = []
    for exe, tag, count, nw, extra in jobs:
        for j in range(nw):
            workers.append(Worker(exe, prop, seed, tier, j, nw, count, wdir, "%s.w%d" % (tag, j), budget, extra))
    deaths = []
    pending = list(workers)
    while pending:
        time.sleep(0.05)
        for w in list(pending):
            rc = w.poll()
            if rc is None:
                if time.time() - w.t0 > w.budget + 90 and not getattr(w, "killed", False):
                    w.killed = True          # over budget: stopped by us, not a death of the system under test
                    w.proc.kill()
                continue
            w.close()
            if rc == 0 or getattr(w, "killed", False):
                if getattr(w, "killed", False): log("worker %s stopped after exceeding its time budget" % w.tag)
                pending.remove(w)
                continue
            idx, plan = read_status(w.status)
            errtxt = open(w.err + ".%d" % w.gen, errors="replace").read()
            deaths.append(dict(tag=w.tag, rc=rc, index=idx, plan=plan, stderr=errtxt[-8000:], exe=w.exe))
            if idx is None or len([d for d in deaths if d["tag"] == w.tag]) > 40 or time.time() - w.t0 > w.budget:
                pending.remove(w)
                continue
            w.start = idx + w.stride
            if w.start >= w.count:
                pending.remove(w)
                continue
            w.launch()
    lines = []
    for w in workers:
        if os.path.exists(w.out):
            for l in open(w.out, errors="replace"):
                if l.startswith("{"):
                    try:
                        lines.append(json.loads(l))
                    except ValueError:
                        pass
    return lines, deaths


# ---------------------------------------------------------------- minimisation
def parse_plan(text):
    head, ops = [], []
    for l in text.splitlines():
        if not l.strip() or l.startswith("#"): continue
        (ops if l.startswith("op ") else head).append(l)
    return head, ops


def plan_text(head, ops):
    return "\n".join(head + ops) + "\n"


def minimise(exe, text, sig, outdir, budget=300):
    """Greedy delta debugging over the op list and numeric arguments while the same signature persists."""
    head, ops = parse_plan(text)
    tmp = os.path.join(outdir, "min-%d.replay" % os.getpid())
    runs = [0]

    def still(h, o):
        if runs[0] >= budget: return False
        runs[0] += 1
        open(tmp, "w").write(plan_text(h, o))
        r = run_replay(exe, tmp, timeout=60)
        return r["violated"] and r["sig"] == sig

    # 1. drop chunks of ops (ddmin style)
    n = 2
    while len(ops) >= 2 and runs[0] < budget:
        chunk = max(1, len(ops) // n)
        reduced = False
        i = 0
        while i < len(ops):
            cand = ops[:i] + ops[i + chunk:]
            if cand and still(head, cand):
                ops = cand; reduced = True
            else:
                i += chunk
        if not reduced:
            if chunk == 1: break
            n = min(len(ops), n * 2)
    # 2. merge adjacent deliveries
    i = 0
    while i + 1 < len(ops) and runs[0] < budget:
        a, b = ops[i].split(), ops[i + 1].split()
        if len(a) == 3 and len(b) == 3 and a[1] == b[1] == "deliver" and a[2].isdigit() and b[2].isdigit():
            cand = ops[:i] + ["op deliver %d" % (int(a[2]) + int(b[2]))] + ops[i + 2:]
            if still(head, cand):
                ops = cand; continue
        i += 1
    # 3. drop attributes (faults), shrink integers
    for i in range(len(ops)):
        toks = ops[i].split()
        j = 2
        while j < len(toks) and runs[0] < budget:
            t = toks[j]
            if "=" in t and not t.startswith("hex"):
                k, v = t.split("=", 1)
                cand_toks = toks[:j] + toks[j + 1:]
                cand = ops[:i] + [" ".join(cand_toks)] + ops[i + 1:]
                if still(head, cand):
                    toks = cand_toks; ops = cand; continue
                if v.isdigit() and int(v) > 0:
                    for nv in (0, int(v) // 2, int(v) - 1):
                        c2 = toks[:j] + ["%s=%d" % (k, nv)] + toks[j + 1:]
                        cand = ops[:i] + [" ".join(c2)] + ops[i + 1:]
                        if nv != int(v) and still(head, cand):
                            toks = c2; ops = cand; break
            elif t.isdigit() and int(t) > 1:
                for nv in (1, int(t) // 2, int(t) - 1):
                    c2 = toks[:j] + [str(nv)] + toks[j + 1:]
                    cand = ops[:i] + [" ".join(c2)] + ops[i + 1:]
                    if nv != int(t) and still(head, cand):
                        toks = c2; ops = cand; break
            j += 1
    # 4. drop trailing bytes of the stream beyond elen
    for hi, hl in enumerate(head):
        if hl.startswith("elen "):
            elen = int(hl.split()[1])
            for si, sl in enumerate(head):
                if sl.startswith("stream ") and len(sl.split()[1]) > 2 * elen:
                    cand = list(head); cand[si] = "stream " + sl.split()[1][:2 * elen]
                    if still(cand, ops): head = cand
    # 5. value-level shrinking: a smaller generation budget for the seeded value (fill:<seed>:<budget>)
    for hi, hl in enumerate(head):
        m = re.match(r"^value fill:(\d+):(\d+)$", hl)
        if not m: continue
        vseed, b = m.group(1), int(m.group(2))
        for nb in sorted(set(x for x in (1, 4, 16, b // 16, b // 4, b // 2) if 0 < x < b)):
            cand = list(head); cand[hi] = "value fill:%s:%d" % (vseed, nb)
            if still(cand, ops):
                head = cand; break
    try: os.unlink(tmp)
    except OSError: pass
    return plan_text(head, ops), runs[0]


# ---------------------------------------------------------------- evidence helpers
def union_distinct(wdir):
    sets = {}
    for f in glob.glob(os.path.join(wdir, "distinct.*")):
        name = os.path.basename(f).split(".")[1:]
        # distinct.<set name with dots>.<program>.<tag...>: set name is everything up to the program tag
        base = os.path.basename(f)[len("distinct."):]
        m = re.match(r"^(.*?)\.(Sim\d+|Gen\d+|LDAP|Nest\w*)-", base)
        key = m.group(1) if m else base
        a = array.array("Q")
        sz = os.path.getsize(f) // 8
        if sz:
            with open(f, "rb") as fh:
                a.fromfile(fh, sz)
        sets.setdefault(key, set()).update(a)
    return {k: len(v) for k, v in sets.items()}


def sig_hash(sig):
    return hashlib.sha1(sig.encode()).hexdigest()[:12]
