// Corrupting transport: seeded damage to a valid encoding (DESIGN 5.4).
#include "transport.h"
#include "ber.h"
#include <algorithm>

static const uint8_t BIASED[] = {0x00, 0x7f, 0x80, 0xff, 0x81, 0x82, 0x84, 0x1f, 0x3f, 0x20, 0x30, 0xa0, '<', '>', '/', '&', ';',
                                 0x01, 0x02, 0x03, 0x04, 0x05, 0x07, 0x08, 0x10, 0x40, 0xc0, 0xfe};    // small lengths / counts / unused-bits octets, determinant prefixes

const char *TRANSPORT_FAULTS[] = {"bitflip", "overwrite", "truncate", "drop", "dup", "swap", "insert", "lenblow", "splice", "garbage", "token", "refragment", "tlvshuffle"};
const int N_TRANSPORT_FAULTS = 13;

// syntax tokens a damaged or hostile stream may contain at any position: lexical corner cases of XML text and of TLV / length octets
static const char *const XML_TOKENS[] = {"&#;", "&#0;", "&#x0;", "&#x;", "&#xFFFFFFFFF;", "&#4294967296;", "&#1114112;", "&#xD800;", "&nosuch;", "&", "&amp", "&lt;", "<", "</", "</>", "<>", "<!--", "-->",
    "<!-- -- -->", "<![CDATA[", "]]>", "<?x y?>", "<x/>", "<nul/>", "<bel/>", "<true/>", "<false/>", "<NULL/>", "<a b=\"c\">", "\xEF\xBB\xBF", "\xC0\x80", "\xED\xA0\x80", "\xF4\x90\x80\x80", "\xFF",
    "FE", "ff:fe", "1.", ".5", "1e", "-", "+", "<PLUS-INFINITY/>", "<MINUS-INFINITY/>", "<NOT-A-NUMBER/>", "-0", "1.2.840.113549", "0.40", "2.999999999999999999999", "  \n\t", "0x1F", "'0101'B"};
struct BinTok { const char *p; size_t n; };
#define BT(s) {s, sizeof(s) - 1}
static const BinTok BIN_TOKENS[] = {BT("\x00\x00"), BT("\x80"), BT("\x1f\xff\xff\xff\xff\x7f"), BT("\x9f\x81\x00"), BT("\xbf\x1f"), BT("\x24\x80"), BT("\x23\x80\x03\x01\x08"), BT("\x03\x01\x08"), BT("\x03\x00"), BT("\x02\x00"), BT("\x0a\x00"), BT("\x01\x00"), BT("\x05\x01\x00"), BT("\x09\x01\x40"), BT("\x09\x01\x41"), BT("\x09\x01\x42"), BT("\x09\x03\x03\x31\x2c"), BT("\x09\x02\x83\x00"), BT("\x09\x02\x80\x80"), BT("\x06\x01\x80"), BT("\x06\x02\x2a\x86"), BT("\x0d\x01\xff"), BT("\x30\x80"), BT("\x31\x80"), BT("\xa0\x80"), BT("\x04\x81\x00"), BT("\x04\x84\x00\x00\x00\x01\x41"), BT("\x81\x01"), BT("\x88\x7f\xff\xff\xff\xff\xff\xff\xff"), BT("\xc1"), BT("\xc4"), BT("\xbf\xff"), BT("\x40"), BT("\x3f"),
                                        // REAL contents in rare binary forms: explicit exponent length octet, 1-4 exponent octets, bases 2 / 8 / 16, scale factors, extreme exponents
                                        BT("\xA3\x03\x20\x00\x00\x00\x01"), BT("\x8F\x03\x7f\xff\xff\xfd\x01"), BT("\x93\x03\x30\x00\x00\x00\x01"), BT("\x83\x02\x00\x00\x05\x03"),
                                        BT("\x09\x07\xA3\x03\x20\x00\x00\x00\x01"), BT("\x07\xA3\x03\x20\x00\x00\x00\x01"), BT("\x82\x7f\xff\xff\x01"), BT("\xA2\x7f\xff\xff\x0f")};

// PER fragmentation (X.691 11.9): a field of 16K units or more travels as [0xC0+m][m x 16K units] ... [final length][rest]. Encoders
// send the largest fragments first; any other partition of the same contents is just as valid. This finds such a chain of octet
// units at any bit offset of the stream and re-writes it with a seeded partition (non-canonical, still valid).
static bool uper_refragment(Bytes &b, Rng &r) {
    const size_t n = b.size(), F = 16384;
    if(n < F + 3) return false;
    unsigned o0 = (unsigned)r.below(8);
    for(unsigned t = 0; t < 8; t++) {
        unsigned o = (o0 + t) & 7;
        Bytes view; size_t nv = o ? n - 1 : n; view.resize(nv);
        for(size_t i = 0; i < nv; i++) view[i] = o ? (uint8_t)((b[i] << o) | (b[i + 1] >> (8 - o))) : b[i];
        for(size_t i = 0; i + F + 2 <= nv; i++) {
            uint8_t v = view[i];
            if(v < 0xC1 || v > 0xC4) continue;
            // parse the chain
            size_t pos = i; Bytes content; bool ok = true; unsigned nfrag = 0;
            for(;;) {
                if(pos >= nv) { ok = false; break; }
                uint8_t d = view[pos];
                if(d >= 0xC1 && d <= 0xC4) { size_t len = (size_t)(d - 0xC0) * F; if(pos + 1 + len > nv) { ok = false; break; } content.insert(content.end(), view.begin() + pos + 1, view.begin() + pos + 1 + len); pos += 1 + len; nfrag++; continue; }
                size_t fin, hdr;
                if(d < 0x80) { fin = d; hdr = 1; } else if(d < 0xC0 && pos + 1 < nv) { fin = ((size_t)(d & 0x3f) << 8) | view[pos + 1]; hdr = 2; } else { ok = false; break; }
                if(pos + hdr + fin > nv) { ok = false; break; }
                content.insert(content.end(), view.begin() + pos + hdr, view.begin() + pos + hdr + fin); pos += hdr + fin;
                break;
            }
            if(!ok || !nfrag) continue;
            // a seeded partition: fragments of 1..4 x 16K in any order, then the rest
            Bytes nw; size_t off = 0, total = content.size();
            while(total - off >= F) {
                size_t maxm = std::min<size_t>(4, (total - off) / F), m = 1 + (size_t)r.below(maxm);
                nw.push_back((uint8_t)(0xC0 + m)); nw.insert(nw.end(), content.begin() + off, content.begin() + off + m * F); off += m * F;
            }
            size_t rest = total - off;
            if(rest < 0x80) nw.push_back((uint8_t)rest); else { nw.push_back((uint8_t)(0x80 | (rest >> 8))); nw.push_back((uint8_t)(rest & 0xff)); }
            nw.insert(nw.end(), content.begin() + off, content.end());
            Bytes view2(view.begin(), view.begin() + i); view2.insert(view2.end(), nw.begin(), nw.end()); view2.insert(view2.end(), view.begin() + pos, view.end());
            if(view2 == view) continue;
            // shift back
            Bytes out; unsigned acc = 0; int nb = 0;
            auto put = [&](unsigned val, int bits) { acc = (acc << bits) | (val & ((1u << bits) - 1)); nb += bits; while(nb >= 8) { out.push_back((uint8_t)(acc >> (nb - 8))); nb -= 8; acc &= (1u << nb) - 1; } };
            if(o) put((unsigned)(b[0] >> (8 - o)), (int)o);
            for(uint8_t x : view2) put(x, 8);
            if(o) put((unsigned)b[n - 1], (int)(8 - o));
            b.swap(out);
            return true;
        }
    }
    return false;
}

// BER structure-aware damage: the stream is parsed into its TLV tree, one constructed node gets a child duplicated, two children
// swapped, a child removed or a child moved to the end, and the tree is written back with correct definite lengths - a well-formed
// encoding of a value the type does not allow (members repeated, out of order or missing).
struct TNode { Bytes ident; bool constructed = false; Bytes content; std::vector<TNode> kids; };
static bool tnode_parse(const uint8_t *p, size_t n, TNode &o, int depth, size_t *used) {
    Tlv t;
    if(depth > 24 || !tlv_parse(p, n, t)) return false;
    size_t idl = 1; if((p[0] & 0x1f) == 0x1f) { while(idl < t.hdr && (p[idl] & 0x80)) idl++; idl++; }
    if(idl > t.hdr) return false;
    o.ident.assign(p, p + idl); o.constructed = t.constructed;
    const uint8_t *c = p + t.hdr; size_t clen = t.len;
    if(t.constructed) {
        size_t off = 0;
        while(off < clen) { TNode k; size_t u = 0; if(!tnode_parse(c + off, clen - off, k, depth + 1, &u) || !u) return false; o.kids.push_back(k); off += u; if(o.kids.size() > 4096) return false; }
    } else o.content.assign(c, c + clen);
    *used = t.total;
    return true;
}
static void tnode_write(const TNode &n, Bytes &o) {
    Bytes body;
    if(n.constructed) for(auto &k : n.kids) tnode_write(k, body); else body = n.content;
    o.insert(o.end(), n.ident.begin(), n.ident.end());
    size_t len = body.size();
    if(len < 0x80) o.push_back((uint8_t)len);
    else { uint8_t tmp[8]; int k = 0; size_t v = len; do { tmp[k++] = v & 0xff; v >>= 8; } while(v); o.push_back((uint8_t)(0x80 | k)); while(k--) o.push_back(tmp[k]); }
    o.insert(o.end(), body.begin(), body.end());
}
static void tnode_collect(TNode &n, std::vector<TNode *> &out) { if(n.constructed && !n.kids.empty()) { out.push_back(&n); for(auto &k : n.kids) tnode_collect(k, out); } }
static bool ber_tlv_shuffle(Bytes &b, Rng &r) {
    if(b.size() < 4 || b.size() > 20000) return false;
    TNode root; size_t used = 0;
    if(!tnode_parse(b.data(), b.size(), root, 0, &used) || used == 0) return false;
    Bytes tail(b.begin() + used, b.end());
    std::vector<TNode *> cs; tnode_collect(root, cs);
    if(cs.empty()) return false;
    TNode &c = *cs[r.below(cs.size())];
    size_t nk = c.kids.size(), i = (size_t)r.below(nk), j = (size_t)r.below(nk);
    switch(r.below(4)) {
    case 0: { TNode copy = c.kids[i]; c.kids.insert(c.kids.begin() + (r.chance(1, 2) ? i + 1 : j), copy); break; }      // a member sent twice
    case 1: if(nk < 2 || i == j) return false; std::swap(c.kids[i], c.kids[j]); break;                                   // out of order
    case 2: c.kids.erase(c.kids.begin() + i); break;                                                                    // missing
    default: { TNode m = c.kids[i]; c.kids.erase(c.kids.begin() + i); c.kids.push_back(m); break; }                      // moved to the end
    }
    Bytes o; tnode_write(root, o); o.insert(o.end(), tail.begin(), tail.end());
    if(o == b) return false;
    b.swap(o);
    return true;
}

static void seg(Rng &r, size_t n, size_t &a, size_t &len) {
    a = n ? (size_t)r.below(n) : 0;
    len = n ? 1 + (size_t)r.below(std::min<size_t>(n - a, r.chance(1, 4) ? n : 16)) : 0;
}

void transport_damage(Bytes &b, Rng &r, const Bytes *other, std::vector<std::string> &applied, unsigned nfaults) {
    for(unsigned f = 0; f < nfaults; f++) {
        int kind = (int)r.below(N_TRANSPORT_FAULTS);
        size_t n = b.size();
        size_t a, len;
        switch(kind) {
        case 0: if(!n) continue; b[r.below(n)] ^= (uint8_t)(1u << r.below(8)); break;
        case 1: if(!n) continue; b[r.below(n)] = r.chance(3, 4) ? BIASED[r.below(sizeof BIASED)] : (uint8_t)r.below(256); break;
        case 2: if(!n) continue; b.resize((size_t)r.below(n)); break;
        case 3: if(!n) continue; seg(r, n, a, len); b.erase(b.begin() + a, b.begin() + a + len); break;
        case 4: { if(!n) continue; seg(r, n, a, len); Bytes s(b.begin() + a, b.begin() + a + len); b.insert(b.begin() + a, s.begin(), s.end()); break; }
        case 5: { if(n < 2) continue; seg(r, n, a, len); size_t c = (size_t)r.below(n - len + 1);
                  Bytes s(b.begin() + a, b.begin() + a + len); b.erase(b.begin() + a, b.begin() + a + len); b.insert(b.begin() + std::min(c, b.size()), s.begin(), s.end()); break; }
        case 6: { size_t k = 1 + (size_t)r.below(8); a = (size_t)r.below(n + 1); Bytes s; for(size_t i = 0; i < k; i++) s.push_back(r.chance(1, 2) ? BIASED[r.below(sizeof BIASED)] : (uint8_t)r.below(256)); b.insert(b.begin() + a, s.begin(), s.end()); break; }
        case 7: { // blow up a length/count octet run: pick a position and write a maximal determinant
                  if(!n) continue; a = (size_t)r.below(n);
                  static const uint8_t forms[][9] = {{1, 0x7f}, {2, 0x81, 0xff}, {3, 0x82, 0xff, 0xff}, {5, 0x84, 0x7f, 0xff, 0xff, 0xff}, {5, 0x84, 0xff, 0xff, 0xff, 0xff},
                                                     {8, 0x87, 0xff, 0xff, 0xff, 0xff, 0xff, 0xff, 0xff}, {1, 0x80}, {2, 0xff, 0xff}};
                  const uint8_t *fm = forms[r.below(8)];
                  bool ins = r.chance(1, 2);
                  for(unsigned i = 0; i < fm[0]; i++) { if(ins) b.insert(b.begin() + std::min(a + i, b.size()), fm[1 + i]); else if(a + i < b.size()) b[a + i] = fm[1 + i]; }
                  break; }
        case 8: { if(!other || other->empty()) { kind = 9; /* fall to garbage */ }
                  else { size_t cut = (size_t)r.below(n + 1); size_t oc = (size_t)r.below(other->size()); b.resize(cut); b.insert(b.end(), other->begin() + oc, other->end()); break; } }
                /* fall through */
        case 9: { size_t k = 1 + (size_t)r.below(24); b.clear(); for(size_t i = 0; i < k; i++) b.push_back((uint8_t)r.below(256)); break; }
        case 11: if(!uper_refragment(b, r)) continue; break;
        case 12: if(!ber_tlv_shuffle(b, r)) continue; break;
        case 10: { // a syntax token at a seeded position (inserted, or written over what is there)
                  bool xml = n && (b[0] == '<' || b[0] == ' ' || b[0] == '\n');
                  const char *t; size_t tl;
                  if(xml) { t = XML_TOKENS[r.below(sizeof XML_TOKENS / sizeof *XML_TOKENS)]; tl = strlen(t); }
                  else { const BinTok &bt = BIN_TOKENS[r.below(sizeof BIN_TOKENS / sizeof *BIN_TOKENS)]; t = bt.p; tl = bt.n; }
                  a = (size_t)r.below(n + 1);
                  if(r.chance(2, 3)) b.insert(b.begin() + a, (const uint8_t *)t, (const uint8_t *)t + tl);
                  else for(size_t i = 0; i < tl; i++) { if(a + i < b.size()) b[a + i] = (uint8_t)t[i]; else b.push_back((uint8_t)t[i]); }
                  break; }
        }
        applied.push_back(TRANSPORT_FAULTS[kind]);
    }
}
