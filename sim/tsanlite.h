#ifndef TSANLITE_H
#define TSANLITE_H
#include <stdint.h>
#include <stddef.h>
#ifdef __cplusplus
extern "C" {
#endif
#define TSL_MAXT 4
#define TSL_MAXRACE 8
#define TSL_MAXADJ 64
struct tsl_config {
    uint64_t sched_seed;
    int policy;              /* 0: random preemption with mean gap inv_p; 1: PCT with pct_d change points */
    uint32_t inv_p;
    int pct_d;
    uint64_t expected_steps; /* for PCT change points */
};
struct tsl_race { uintptr_t addr_rel; int is_static; int kind; /* 0 WW, 1 WR, 2 RW */ int tid1, tid2; uintptr_t pc1, pc2; };
struct tsl_stats {
    uint64_t switches, steps, accesses, range_calls, races, static_writes, interleaving_hash;
    int n_race_reports; struct tsl_race race[TSL_MAXRACE];
    int n_adjacent; uint64_t adjacent[TSL_MAXADJ][2];
};
/* run fn(args[i]) in nthreads real threads, exactly one runnable at any time */
void tsl_run(int nthreads, void *(*fn)(void *), void **args, const struct tsl_config *cfg, struct tsl_stats *out);
void tsl_sched_point(void);                          /* explicit switch point (allocator, callbacks, between deliveries) */
void tsl_range(const void *p, size_t n, int is_write);/* wrapped libc range functions report what they touch */
void tsl_forget(const void *p, size_t n);            /* memory handed back to the allocator */
int  tsl_self(void);
#ifdef __cplusplus
}
#endif
#endif
