/* Random seam: --wrap=random. Library randomness (asn_random_between -> random()) comes from the run's value stream. */
#include "sim_seams.h"
#include <stdint.h>

/* ---- random seam ---- */
static uint64_t rnd_s[2] = {0x9e3779b97f4a7c15ULL, 0xbf58476d1ce4e5b9ULL};
void sim_random_seed(uint64_t s) {
    uint64_t z = s + 0x9e3779b97f4a7c15ULL;
    for(int i = 0; i < 2; i++) {
        z += 0x9e3779b97f4a7c15ULL;
        uint64_t x = z;
        x = (x ^ (x >> 30)) * 0xbf58476d1ce4e5b9ULL;
        x = (x ^ (x >> 27)) * 0x94d049bb133111ebULL;
        rnd_s[i] = x ^ (x >> 31);
    }
    if(!rnd_s[0] && !rnd_s[1]) rnd_s[0] = 1;
}
long __wrap_random(void) {
    /* xoroshiro128+ ; library sees values in [0, 2^31) like random(3) */
    uint64_t s0 = rnd_s[0], s1 = rnd_s[1], r = s0 + s1;
    s1 ^= s0;
    rnd_s[0] = ((s0 << 24) | (s0 >> 40)) ^ s1 ^ (s1 << 16);
    rnd_s[1] = (s1 << 37) | (s1 >> 27);
    return (long)(r >> 33);
}
