#include "core.h"
#include <cstdarg>
#include <cstdlib>
#include <cerrno>
#include <fstream>
#include <sstream>
#include <sys/mman.h>
#include <fcntl.h>
#include <unistd.h>

Counters G;
EventLog EV;
std::map<std::string, uint64_t> g_violation_counts;
std::string g_values_dir;
std::string g_history;

uint64_t fnv1a(const void *p, size_t n, uint64_t h) {
    const uint8_t *b = (const uint8_t *)p;
    for(size_t i = 0; i < n; i++) { h ^= b[i]; h *= 0x100000001b3ULL; }
    return h;
}
uint64_t hash_str(const std::string &s, uint64_t h) { return fnv1a(s.data(), s.size(), h); }

Rng stream(uint64_t run_seed, const char *label) {
    uint64_t x = run_seed ^ hash_str(label);
    return Rng(splitmix64(x));
}
uint64_t derive_run_seed(uint64_t verif_seed, const char *property, const char *program, uint64_t index) {
    uint64_t x = verif_seed * 0x9e3779b97f4a7c15ULL;
    x ^= hash_str(property); x = splitmix64(x);
    x ^= hash_str(program);  x = splitmix64(x);
    x ^= index;              x = splitmix64(x);
    return x;
}

std::string to_hex(const uint8_t *p, size_t n) {
    static const char *d = "0123456789abcdef";
    std::string s; s.reserve(n * 2);
    for(size_t i = 0; i < n; i++) { s.push_back(d[p[i] >> 4]); s.push_back(d[p[i] & 15]); }
    return s;
}
bool from_hex(const std::string &s, Bytes &out) {
    out.clear();
    if(s.size() % 2) return false;
    auto v = [](char c) -> int { if(c >= '0' && c <= '9') return c - '0'; if(c >= 'a' && c <= 'f') return c - 'a' + 10;
        if(c >= 'A' && c <= 'F') return c - 'A' + 10; return -1; };
    for(size_t i = 0; i < s.size(); i += 2) {
        int a = v(s[i]), b = v(s[i + 1]);
        if(a < 0 || b < 0) return false;
        out.push_back((uint8_t)(a * 16 + b));
    }
    return true;
}

std::string L(long v) { return std::to_string(v); }
Op mkop(const char *name, std::initializer_list<std::string> args) { Op o; o.name = name; o.args = args; return o; }
long Op::argl(size_t i, long dflt) const { if(i >= args.size()) return dflt; return strtol(args[i].c_str(), 0, 10); }
std::string Op::attr(const char *k, const char *dflt) const { auto it = attrs.find(k); return it == attrs.end() ? dflt : it->second; }
long Op::attrl(const char *k, long dflt) const { auto it = attrs.find(k); return it == attrs.end() ? dflt : strtol(it->second.c_str(), 0, 10); }
std::string Op::str() const {
    std::string s = "op " + name;
    for(auto &a : args) s += " " + a;
    for(auto &kv : attrs) s += " " + kv.first + "=" + kv.second;
    return s + "\n";
}
void Plan::set(const std::string &k, const std::string &v) {
    for(auto &kv : head) if(kv.first == k) { kv.second = v; return; }
    head.push_back({k, v});
}
std::string Plan::get(const std::string &k, const char *dflt) const {
    for(auto &kv : head) if(kv.first == k) return kv.second;
    return dflt;
}
long Plan::getl(const std::string &k, long dflt) const {
    for(auto &kv : head) if(kv.first == k) return strtol(kv.second.c_str(), 0, 10);
    return dflt;
}
std::string Plan::head_str() const { std::string s; for(auto &kv : head) s += kv.first + " " + kv.second + "\n"; return s; }
std::string Plan::ops_str() const { std::string s; for(auto &o : ops) s += o.str(); return s; }
bool Plan::parse(const std::string &text, Plan &out, std::string &err) {
    out = Plan();
    std::istringstream in(text);
    std::string line;
    while(std::getline(in, line)) {
        size_t hp = line.find(" #");
        if(hp != std::string::npos) line = line.substr(0, hp);
        while(!line.empty() && (line.back() == ' ' || line.back() == '\r')) line.pop_back();
        if(line.empty() || line[0] == '#') continue;
        std::istringstream ls(line);
        std::string w; ls >> w;
        if(w == "op") {
            Op o; ls >> o.name;
            if(o.name.empty()) { err = "op without name"; return false; }
            std::string t;
            while(ls >> t) {
                size_t eq = t.find('=');
                if(eq != std::string::npos && eq > 0 && !isdigit((unsigned char)t[0]) && t[0] != '-') o.attrs[t.substr(0, eq)] = t.substr(eq + 1);
                else o.args.push_back(t);
            }
            out.ops.push_back(o);
        } else {
            std::string rest; std::getline(ls, rest);
            size_t i = 0; while(i < rest.size() && rest[i] == ' ') i++;
            out.head.push_back({w, rest.substr(i)});
        }
    }
    return true;
}

void EventLog::ev(const char *fmt, ...) {
    char buf[512];
    va_list ap; va_start(ap, fmt);
    int n = vsnprintf(buf, sizeof(buf), fmt, ap);
    va_end(ap);
    if(n < 0) return;
    if((size_t)n >= sizeof(buf)) n = sizeof(buf) - 1;
    h = fnv1a(buf, n, h);
    h = fnv1a("\n", 1, h);
    if(keep) { text.append(buf, n); text.push_back('\n'); }
}

// ---------------------------------------------------------------- status area
static char *st_area; static const size_t ST_SIZE = 8u << 20, ST_OPS = 6u << 20;
void status_open(const char *path) {
    int fd = open(path, O_RDWR | O_CREAT | O_TRUNC, 0644);
    if(fd < 0) return;
    if(ftruncate(fd, ST_SIZE) != 0) { close(fd); return; }
    void *p = mmap(0, ST_SIZE, PROT_READ | PROT_WRITE, MAP_SHARED, fd, 0);
    close(fd);
    if(p != MAP_FAILED) st_area = (char *)p;
}
void status_head(const std::string &head) {
    if(!st_area) return;
    size_t n = head.size() < ST_OPS - 16 ? head.size() : ST_OPS - 16;
    memcpy(st_area + 8, head.data(), n); st_area[8 + n] = 0; st_area[ST_OPS] = 0;
}
void status_ops_raw(const char *s, size_t n) {
    if(!st_area) return;
    if(n > ST_SIZE - ST_OPS - 1) n = ST_SIZE - ST_OPS - 1;
    memcpy(st_area + ST_OPS, s, n); st_area[ST_OPS + n] = 0;
}
void status_index(uint64_t i) { if(st_area) memcpy(st_area, &i, 8); }
void status_ops(const std::string &ops) { status_ops_raw(ops.data(), ops.size()); }
volatile uint64_t g_progress;
void status_progress() { g_progress++; }

// ---------------------------------------------------------------- violations
std::string json_escape(const std::string &s) {
    std::string o;
    for(unsigned char c : s) {
        switch(c) {
        case '"': o += "\\\""; break; case '\\': o += "\\\\"; break; case '\n': o += "\\n"; break;
        case '\r': o += "\\r"; break; case '\t': o += "\\t"; break;
        default: if(c < 0x20 || c >= 0x7f) { char b[8]; snprintf(b, sizeof b, "\\u%04x", c); o += b; } else o.push_back(c);
        }
    }
    return o;
}
void report_violation(const std::string &property, const std::string &sig, const std::string &detail,
                      const std::string &plan_text) {
    uint64_t &c = g_violation_counts[sig];
    c++;
    if(c > 3) return;      // keep a few plans per signature per worker
    // "history": where in this worker's sequence of run indices the violation happened, for violations that only exist after what the
    // process did before (library statics that ratchet): seed start stride index tier
    printf("{\"type\":\"violation\",\"property\":\"%s\",\"sig\":\"%s\",\"detail\":\"%s\",\"plan\":\"%s\",\"history\":\"%s\"}\n",
           property.c_str(), json_escape(sig).c_str(), json_escape(detail).c_str(), json_escape(plan_text).c_str(), json_escape(g_history).c_str());
    fflush(stdout);
}

// ---------------------------------------------------------------- guarded calls
bool libcall(const std::function<void()> &f) {
    volatile int saved = sim_in_lib;
    sim_abort_armed = 1;
    if(setjmp(sim_abort_jmp)) {
        sim_in_lib = saved;
        sim_abort_armed = 0;
        return false;
    }
    SIM_LIB_ENTER();
    f();
    SIM_LIB_LEAVE();
    sim_abort_armed = 0;
    return true;
}
bool guardcall(const std::function<void()> &f) {
    volatile int saved = sim_in_lib;
    sim_abort_armed = 1;
    if(setjmp(sim_abort_jmp)) { sim_in_lib = saved; sim_abort_armed = 0; return false; }
    sim_in_lib = 0;
    f();
    sim_in_lib = saved;
    sim_abort_armed = 0;
    return true;
}
std::string abort_site() {
    return std::string(sim_abort_last.file) + ":" + sim_abort_last.func + ":\"" + sim_abort_last.expr + "\"";
}

// ---------------------------------------------------------------- types
std::vector<asn_TYPE_descriptor_t *> &pdu_types() {
    static std::vector<asn_TYPE_descriptor_t *> v;
    if(v.empty()) for(int i = 0; asn_pdu_collection[i]; i++) v.push_back(asn_pdu_collection[i]);
    return v;
}
asn_TYPE_descriptor_t *pdu_by_name(const std::string &name) {
    for(auto *t : pdu_types()) if(name == t->name) return t;
    return nullptr;
}

static const char *SYN[] = {"DER", "BER", "OER", "XER", "CXER", "UPER"};
const char *syntax_name(Syntax s) { return SYN[s]; }
bool syntax_from_name(const std::string &n, Syntax &s) {
    for(int i = 0; i < SY_N; i++) if(n == SYN[i]) { s = (Syntax)i; return true; }
    return false;
}
asn_transfer_syntax syntax_ats(Syntax s) {
    switch(s) {
    case SY_DER: return ATS_DER; case SY_BER: return ATS_BER; case SY_OER: return ATS_CANONICAL_OER;
    case SY_XER: return ATS_BASIC_XER; case SY_CXER: return ATS_CANONICAL_XER; case SY_UPER: return ATS_UNALIGNED_BASIC_PER;
    default: return ATS_INVALID;
    }
}
const char *rc_name(int code) { return code == RC_OK ? "OK" : code == RC_WMORE ? "WMORE" : code == RC_FAIL ? "FAIL" : "?"; }

static int vec_sink(const void *buf, size_t size, void *key) {
    Bytes *v = (Bytes *)key;
    int save = sim_in_lib; sim_in_lib = 0;
    v->insert(v->end(), (const uint8_t *)buf, (const uint8_t *)buf + size);
    sim_in_lib = save;
    return 0;
}
EncResult encode_to_vec(asn_TYPE_descriptor_t *td, const void *st, Syntax sy) {
    EncResult r;
    asn_enc_rval_t er; er.encoded = -1;
    errno = 0;
    bool ok = libcall([&] { er = asn_encode(0, syntax_ats(sy), td, st, vec_sink, &r.out); });
    r.err = errno;
    if(!ok) { r.aborted = true; r.encoded = -1; return r; }
    r.encoded = er.encoded;
    return r;
}

DecResult decode_call(asn_TYPE_descriptor_t *td, Syntax sy, void **st, const uint8_t *buf, size_t n,
                      const asn_codec_ctx_t *ctx) {
    DecResult r;
    // exact-size heap copy: ASan sees any over-read past size, and any pointer retained into an old buffer
    uint8_t *copy = (uint8_t *)malloc(n ? n : 1);
    if(n) memcpy(copy, buf, n);
    asn_dec_rval_t rv; rv.code = RC_FAIL; rv.consumed = 0;
    bool ok = libcall([&] { rv = asn_decode(ctx, syntax_ats(sy), td, st, n ? copy : copy, n); });
    free(copy);
    if(!ok) { r.aborted = true; return r; }
    r.code = rv.code; r.consumed = rv.consumed;
    return r;
}
void free_struct(asn_TYPE_descriptor_t *td, void *st) {
    if(!st) return;
    libcall([&] { ASN_STRUCT_FREE(*td, st); });
}

Fingerprint fingerprint(asn_TYPE_descriptor_t *td, const void *st) {
    Fingerprint f;
    if(!st) return f;
    EncResult a = encode_to_vec(td, st, SY_DER);
    EncResult b = encode_to_vec(td, st, SY_CXER);
    f.aborted = a.aborted || b.aborted;
    f.der_ok = a.encoded >= 0; f.cxer_ok = b.encoded >= 0;
    if(f.der_ok) f.der = a.out;
    if(f.cxer_ok) f.cxer = b.out;
    return f;
}

void *random_value(asn_TYPE_descriptor_t *td, uint64_t value_seed, size_t budget) {
    void *st = nullptr;
    int rc = -1;
    sim_random_seed(value_seed);
    bool ok = libcall([&] { rc = asn_random_fill(td, &st, budget); });
    if(!ok || rc != 0) {
        if(ok && st) free_struct(td, st);
        return nullptr;
    }
    return st;
}

std::vector<std::string> seed_value_texts(asn_TYPE_descriptor_t *td) {
    static std::map<std::string, std::vector<std::string>> cache;
    auto it = cache.find(td->name);
    if(it != cache.end()) return it->second;
    std::vector<std::string> v;
    std::ifstream in(g_values_dir + "/" + td->name + ".xer");
    std::string line;
    while(std::getline(in, line)) if(!line.empty() && line[0] == '<') v.push_back(line);
    cache[td->name] = v;
    return v;
}
void *value_from_xer(asn_TYPE_descriptor_t *td, const std::string &text) {
    void *st = nullptr;
    DecResult r = decode_call(td, SY_XER, &st, (const uint8_t *)text.data(), text.size());
    if(r.aborted || r.code != RC_OK) { if(st && !r.aborted) free_struct(td, st); return nullptr; }
    return st;
}
