// Nest templates: inputs nested to a chosen depth through the recursive types of the corpus (and through what a decoder skips).
// Shared by the C15 stack runs and by the value chooser of the other engines (`value nest:<template>:<depth>`).
#ifndef SIM_NEST_H
#define SIM_NEST_H
#include "core.h"
#include <initializer_list>
namespace nest {
// ---------------------------------------------------------------- nest templates
static inline void put_len(Bytes &o, size_t len) {
    if(len < 0x80) { o.push_back((uint8_t)len); return; }
    uint8_t tmp[8]; int k = 0; size_t v = len;
    do { tmp[k++] = v & 0xff; v >>= 8; } while(v);
    o.push_back((uint8_t)(0x80 | k));
    while(k--) o.push_back(tmp[k]);
}
static inline Bytes tlv(uint8_t tag, const Bytes &content) { Bytes o; o.push_back(tag); put_len(o, content.size()); o.insert(o.end(), content.begin(), content.end()); return o; }
static inline Bytes B(std::initializer_list<int> l) { Bytes b; for(int x : l) b.push_back((uint8_t)x); return b; }
static inline void app(Bytes &a, const Bytes &b) { a.insert(a.end(), b.begin(), b.end()); }
static inline void apps(Bytes &a, const char *s) { a.insert(a.end(), s, s + strlen(s)); }
static inline Bytes rep(const Bytes &u, size_t k) { Bytes o; o.reserve(u.size() * k); for(size_t i = 0; i < k; i++) app(o, u); return o; }
static inline Bytes reps(const char *s, size_t k) { Bytes o; size_t n = strlen(s); o.reserve(n * k); for(size_t i = 0; i < k; i++) o.insert(o.end(), s, s + n); return o; }
// definite-length nest built inside-out in O(total): content(k) = pre + TAG L content(k-1) + post
static inline Bytes nest_def(uint8_t top_tag, uint8_t inner_tag, const Bytes &pre, const Bytes &post, const Bytes &base, size_t k) {
    // sizes first (inside-out), then emit outside-in
    std::vector<size_t> clen(k + 1);
    clen[0] = base.size();
    auto hdr = [](size_t len) { size_t h = 2; if(len >= 0x80) { size_t v = len; while(v) { h++; v >>= 8; } } return h; };
    for(size_t i = 1; i <= k; i++) clen[i] = pre.size() + hdr(clen[i - 1]) + clen[i - 1] + post.size();
    Bytes o; o.reserve(clen[k] + 8);
    o.push_back(top_tag); put_len(o, clen[k]);
    for(size_t i = k; i >= 1; i--) { app(o, pre); o.push_back(inner_tag); put_len(o, clen[i - 1]); }
    app(o, base);
    for(size_t i = 1; i <= k; i++) app(o, post);
    return o;
}
// definite-length nest whose levels cycle through a pattern of wrappers (pre-bytes + tag): k pattern repetitions around base
static inline Bytes nest_cyc(uint8_t top_tag, const std::vector<std::pair<Bytes, uint8_t>> &pat, const Bytes &base, size_t k) {
    size_t levels = pat.size() * k;
    std::vector<size_t> clen(levels + 1);
    clen[0] = base.size();
    auto hdr = [](size_t len) { size_t h = 2; if(len >= 0x80) { size_t v = len; while(v) { h++; v >>= 8; } } return h; };
    // level i (1 = innermost wrapper) uses pattern entry (levels - i) % pat.size() when emitted outside-in
    for(size_t i = 1; i <= levels; i++) { const auto &w = pat[(levels - i) % pat.size()]; clen[i] = w.first.size() + hdr(clen[i - 1]) + clen[i - 1]; }
    Bytes o; o.reserve(clen[levels] + 8);
    o.push_back(top_tag); put_len(o, clen[levels]);
    for(size_t i = levels; i >= 1; i--) { const auto &w = pat[(levels - i) % pat.size()]; app(o, w.first); o.push_back(w.second); put_len(o, clen[i - 1]); }
    app(o, base);
    return o;
}
static inline Bytes bits_nest(size_t k) { // k one-bits then a zero bit, padded
    Bytes o((k + 1 + 7) / 8, 0);
    for(size_t i = 0; i < k; i++) o[i / 8] |= (uint8_t)(0x80 >> (i % 8));
    return o;
}

struct Tmpl { const char *name; const char *type; Syntax sy; Bytes (*gen)(size_t k); };

static const Bytes V_DEEP = B({0xac, 0x07, 0xe3, 0x05, 0x61, 0x03, 0x02, 0x01, 0x00});

static const Tmpl TEMPLATES[] = {
    // Sim1
    {"forest.ber-def", "Forest", SY_BER, [](size_t k) { return nest_def(0x31, 0x31, {}, {}, {}, k); }},
    {"forest.ber-indef", "Forest", SY_BER, [](size_t k) { Bytes o = rep(B({0x31, 0x80}), k); app(o, B({0x31, 0x00})); app(o, rep(B({0, 0}), k)); return o; }},
    {"forest.xer", "Forest", SY_XER, [](size_t k) { Bytes o = reps("<Forest>", k + 1); app(o, reps("</Forest>", k + 1)); return o; }},
    {"forest.oer", "Forest", SY_OER, [](size_t k) { Bytes o = rep(B({1, 1}), k); app(o, B({1, 0})); return o; }},
    {"forest.uper", "Forest", SY_UPER, [](size_t k) { Bytes o = rep(B({1}), k); o.push_back(0); return o; }},
    {"tree2.ber-def", "Tree2", SY_BER, [](size_t k) { return nest_def(0x30, 0xa1, B({0x80, 1, 0}), B({0xa2, 0}), B({0x80, 1, 0, 0xa2, 0}), k); }},
    {"tree2.xer", "Tree2", SY_XER, [](size_t k) { Bytes o; apps(o, "<Tree2><v>0</v>"); app(o, reps("<next><v>0</v>", k)); apps(o, "<kids></kids>"); app(o, reps("</next><kids></kids>", k)); apps(o, "</Tree2>"); return o; }},
    {"tree.ber-def", "Tree", SY_BER, [](size_t k) {
        // Tree ::= CHOICE { leaf [0], node [1] SEQUENCE { l [0] Tree, r [1] Tree }, wrap [2] }: nest through node.l
        // level: A1 L { A0 L' <inner> A1 03 80 01 05 }
        std::vector<size_t> len(k + 1); len[0] = 3;
        auto hdr = [](size_t l) { size_t h = 2; if(l >= 0x80) { size_t v = l; while(v) { h++; v >>= 8; } } return h; };
        for(size_t i = 1; i <= k; i++) { size_t inner = len[i - 1]; size_t a0 = hdr(inner) + inner; len[i] = hdr(a0 + 5) + a0 + 5; }
        Bytes o; o.reserve(len[k]);
        for(size_t i = k; i >= 1; i--) { size_t inner = len[i - 1]; size_t a0 = hdr(inner) + inner; o.push_back(0xa1); put_len(o, a0 + 5); o.push_back(0xa0); put_len(o, inner); }
        app(o, B({0x80, 1, 5}));
        for(size_t i = 1; i <= k; i++) app(o, B({0xa1, 3, 0x80, 1, 5}));
        return o; }},
    {"tree.xer", "Tree", SY_XER, [](size_t k) { Bytes o; apps(o, "<Tree>"); app(o, reps("<node><l>", k)); apps(o, "<leaf>5</leaf>"); app(o, reps("</l><r><leaf>5</leaf></r></node>", k)); apps(o, "</Tree>"); return o; }},
    // unknown extension additions (skipped, not decoded): nesting inside what the decoder steps over
    {"seq.ber-skip-indef", "Seq", SY_BER, [](size_t k) { Bytes o = B({0x30, 0x80, 0x80, 1, 0, 0xa5, 0}); app(o, rep(B({0xaf, 0x80}), k)); app(o, rep(B({0, 0}), k)); app(o, B({0, 0})); return o; }},
    {"seq.ber-skip-mixed", "Seq", SY_BER, [](size_t k) { Bytes o = B({0x30, 0x80, 0x80, 1, 0, 0xa5, 0}); app(o, rep(B({0xaf, 0x80, 0x8e, 1, 7, 0xbf, 0x21, 0x80}), k)); app(o, rep(B({0, 0, 0, 0}), k)); app(o, B({0, 0})); return o; }},
    {"seq.xer-skip", "Seq", SY_XER, [](size_t k) { Bytes o; apps(o, "<Seq><a>0</a><f></f>"); app(o, reps("<zz>", k)); app(o, reps("</zz>", k)); apps(o, "</Seq>"); return o; }},
    {"set.ber-skip-indef", "Set", SY_BER, [](size_t k) { Bytes o = B({0x31, 0x80, 0x80, 1, 0, 0x83, 0}); app(o, rep(B({0xaf, 0x80}), k)); app(o, rep(B({0, 0}), k)); app(o, B({0, 0})); return o; }},
    {"set.xer-skip", "Set", SY_XER, [](size_t k) { Bytes o; apps(o, "<Set><i>0</i><n/>"); app(o, reps("<zz>", k)); app(o, reps("</zz>", k)); apps(o, "</Set>"); return o; }},
    {"ch.ber-skip-indef", "Ch", SY_BER, [](size_t k) { Bytes o = rep(B({0xaf, 0x80}), k); app(o, rep(B({0, 0}), k)); return o; }},
    // Sim2
    {"any.ber-indef", "Any", SY_BER, [](size_t k) { Bytes o = B({0x30, 0x80, 2, 1, 0}); app(o, rep(B({0x30, 0x80}), k)); app(o, rep(B({0, 0}), k)); app(o, B({0, 0})); return o; }},
    {"deep.ber-indef", "Deep", SY_BER, [](size_t k) { Bytes o = rep(B({0xaa, 0x80, 0x30, 0x80, 0xab, 0x80}), k); app(o, B({0xaa, 0x80, 0x30, 0x80})); app(o, V_DEEP); app(o, B({0, 0, 0, 0}));
        Bytes post = B({0, 0}); app(post, V_DEEP); app(post, B({0, 0, 0, 0})); app(o, rep(post, k)); return o; }},
    {"ims.ber-nested-string", "ImS", SY_BER, [](size_t k) { Bytes o = B({0x30, 0x80, 0xa0, 0x80}); app(o, rep(B({0x24, 0x80}), k)); app(o, B({4, 1, 0x41})); app(o, rep(B({0, 0}), k)); app(o, B({0, 0}));
        app(o, B({0x81, 2, 0, 0xff, 0x82, 1, 0x41, 0, 0})); return o; }},
    // Sim6: recursion only through open types (information object sets)
    {"nframe.xer", "NFrame", SY_XER, [](size_t k) { Bytes o = reps("<NFrame><ident>2</ident><value><NBox><kind>1</kind><content><NFrames>", k);
        apps(o, "<NFrame><ident>1</ident><value><NLeaf><n>5</n></NLeaf></value></NFrame>"); app(o, reps("</NFrames></content></NBox></value></NFrame>", k)); return o; }},
    {"nframe.ber-def", "NFrame", SY_BER, [](size_t k) {
        // NFrame{ident 2, value [1]{NBox{kind 1, content [1]{NFrames{ NFrame ... }}}}}
        std::vector<std::pair<Bytes, uint8_t>> pat = {{B({0x80, 1, 2}), 0xa1}, {Bytes(), 0x30}, {B({0x80, 1, 1}), 0xa1}, {Bytes(), 0x30}, {Bytes(), 0x30}};
        return nest_cyc(0x30, pat, B({0x80, 1, 1, 0xa1, 5, 0x30, 3, 0x80, 1, 5}), k); }},
    // Sim4
    {"rec.ber-def", "Rec", SY_BER, [](size_t k) { return nest_def(0x30, 0xa0, {}, {}, {}, k); }},
    {"rec.ber-indef", "Rec", SY_BER, [](size_t k) { Bytes o = B({0x30, 0x80}); app(o, rep(B({0xa0, 0x80}), k)); app(o, rep(B({0, 0}), k + 1)); return o; }},
    {"rec.xer", "Rec", SY_XER, [](size_t k) { Bytes o; apps(o, "<Rec>"); app(o, reps("<r>", k)); app(o, reps("</r>", k)); apps(o, "</Rec>"); return o; }},
    {"rec.oer", "Rec", SY_OER, [](size_t k) { Bytes o = rep(B({0x80}), k); o.push_back(0); return o; }},
    {"rec.uper", "Rec", SY_UPER, [](size_t k) { return bits_nest(k); }},
    {"recc.ber-def", "RecC", SY_BER, [](size_t k) {
        std::vector<size_t> len(k + 1); len[0] = 2;
        auto hdr = [](size_t l) { size_t h = 2; if(l >= 0x80) { size_t v = l; while(v) { h++; v >>= 8; } } return h; };
        for(size_t i = 1; i <= k; i++) len[i] = hdr(len[i - 1]) + len[i - 1];
        Bytes o; for(size_t i = k; i >= 1; i--) { o.push_back(0xa1); put_len(o, len[i - 1]); } app(o, B({0x80, 0})); return o; }},
    {"recc.xer", "RecC", SY_XER, [](size_t k) { Bytes o; apps(o, "<RecC>"); app(o, reps("<more>", k)); apps(o, "<stop/>"); app(o, reps("</more>", k)); apps(o, "</RecC>"); return o; }},
    {"recc.oer", "RecC", SY_OER, [](size_t k) { Bytes o = rep(B({0x81}), k); o.push_back(0x80); return o; }},
    {"recc.uper", "RecC", SY_UPER, [](size_t k) { return bits_nest(k); }},
    {"recl.ber-def", "RecL", SY_BER, [](size_t k) { return nest_def(0x30, 0x30, {}, {}, {}, k); }},
    {"recl.ber-indef", "RecL", SY_BER, [](size_t k) { Bytes o = rep(B({0x30, 0x80}), k); app(o, B({0x30, 0})); app(o, rep(B({0, 0}), k)); return o; }},
    {"recl.xer", "RecL", SY_XER, [](size_t k) { Bytes o = reps("<RecL>", k + 1); app(o, reps("</RecL>", k + 1)); return o; }},
    {"recl.oer", "RecL", SY_OER, [](size_t k) { Bytes o = rep(B({1, 1}), k); app(o, B({1, 0})); return o; }},
    {"recl.uper", "RecL", SY_UPER, [](size_t k) { Bytes o = rep(B({1}), k); o.push_back(0); return o; }},
};
static const int NTEMPL = sizeof(TEMPLATES) / sizeof(TEMPLATES[0]);
} // namespace nest
using nest::Tmpl; using nest::TEMPLATES; using nest::NTEMPL;
#endif
