// Simulator core: PRNG streams, plans (= replay files), counters, status area,
// guarded library calls, encode/decode helpers.
#ifndef SIM_CORE_H
#define SIM_CORE_H
#include <cstdint>
#include <cstdio>
#include <cstring>
#include <string>
#include <vector>
#include <map>
#include <set>
#include <unordered_set>
#include <functional>

extern "C" {
#include <asn_application.h>
#include "sim_seams.h"
}

extern "C" const char *sim_program;     // defined in a one-line per-program file
#define SIM_PROGRAM sim_program

typedef std::vector<uint8_t> Bytes;

// ---------------------------------------------------------------- PRNG
static inline uint64_t splitmix64(uint64_t &x) {
    uint64_t z = (x += 0x9e3779b97f4a7c15ULL);
    z = (z ^ (z >> 30)) * 0xbf58476d1ce4e5b9ULL;
    z = (z ^ (z >> 27)) * 0x94d049bb133111ebULL;
    return z ^ (z >> 31);
}
uint64_t fnv1a(const void *p, size_t n, uint64_t h = 0xcbf29ce484222325ULL);
uint64_t hash_str(const std::string &s, uint64_t h = 0xcbf29ce484222325ULL);

struct Rng {
    uint64_t s[4];
    Rng() { seed(1); }
    explicit Rng(uint64_t x) { seed(x); }
    void seed(uint64_t x) { for(int i = 0; i < 4; i++) s[i] = splitmix64(x); }
    static inline uint64_t rotl(uint64_t x, int k) { return (x << k) | (x >> (64 - k)); }
    uint64_t next() {
        uint64_t r = rotl(s[1] * 5, 7) * 9, t = s[1] << 17;
        s[2] ^= s[0]; s[3] ^= s[1]; s[1] ^= s[2]; s[0] ^= s[3]; s[2] ^= t; s[3] = rotl(s[3], 45);
        return r;
    }
    uint64_t below(uint64_t n) { return n ? next() % n : 0; }            // [0,n)
    int64_t range(int64_t lo, int64_t hi) { return lo + (int64_t)below((uint64_t)(hi - lo + 1)); }
    bool chance(unsigned num, unsigned den) { return below(den) < num; }
    // geometric-ish small number >= 1
    size_t geom(size_t cap) { size_t n = 1; while(n < cap && chance(1, 2)) n *= 2; return 1 + below(n); }
};
// independent stream for (run seed, label)
Rng stream(uint64_t run_seed, const char *label);
uint64_t derive_run_seed(uint64_t verif_seed, const char *property, const char *program, uint64_t index);

// ---------------------------------------------------------------- hex
std::string to_hex(const uint8_t *p, size_t n);
inline std::string to_hex(const Bytes &b) { return to_hex(b.data(), b.size()); }
bool from_hex(const std::string &s, Bytes &out);

// ---------------------------------------------------------------- plans
struct Op {
    std::string name;
    std::vector<std::string> args;                 // positional
    std::map<std::string, std::string> attrs;      // key=value
    long argl(size_t i, long dflt = 0) const;
    std::string attr(const char *k, const char *dflt = "") const;
    long attrl(const char *k, long dflt = -1) const;
    bool has(const char *k) const { return attrs.count(k) != 0; }
    std::string str() const;
};
struct Plan {
    std::vector<std::pair<std::string, std::string>> head;   // ordered "key value" lines
    std::vector<Op> ops;
    void set(const std::string &k, const std::string &v);
    std::string get(const std::string &k, const char *dflt = "") const;
    long getl(const std::string &k, long dflt = 0) const;
    std::string head_str() const;
    std::string ops_str() const;
    std::string str() const { return head_str() + ops_str(); }
    static bool parse(const std::string &text, Plan &out, std::string &err);
};
Op mkop(const char *name, std::initializer_list<std::string> args = {});
std::string L(long v);

// ---------------------------------------------------------------- counters / evidence
struct Counters {
    std::map<std::string, uint64_t> n;
    std::map<std::string, std::unordered_set<uint64_t>> distinct;
    std::vector<std::string> samples;              // a few plans verbatim
    uint64_t log_hash = 0;                         // order-independent sum of per-run event-log hashes
    void add(const std::string &k, uint64_t v = 1) { n[k] += v; }
    void max(const std::string &k, uint64_t v) { if(n[k] < v) n[k] = v; }
    void seen(const std::string &set, uint64_t h) { auto &s = distinct[set]; if(s.size() < 4000000) s.insert(h); }
};
extern Counters G;

// per-run event log (never contains addresses or clock values)
struct EventLog {
    uint64_t h = 0xcbf29ce484222325ULL;
    bool keep = false;
    std::string text;
    void ev(const char *fmt, ...) __attribute__((format(printf, 2, 3)));
    void reset() { h = 0xcbf29ce484222325ULL; text.clear(); }
};
extern EventLog EV;

// ---------------------------------------------------------------- status area (crash attribution)
void status_open(const char *path);
void status_head(const std::string &head);        // plan header of the case being run
void status_ops(const std::string &ops);          // ops of the schedule being run
void status_ops_raw(const char *s, size_t n);
void status_index(uint64_t run_index);
void sim_install_altstack();     // per thread; no-op under ASan (it has its own)
void status_progress();                           // bump progress counter for the watchdog

// ---------------------------------------------------------------- violations
struct Violation {
    std::string property, sig, detail, plan;
};
void plan_dump_maybe(const std::string &plan);    // every K-th executed plan goes to a file (valgrind sample)
void report_violation(const std::string &property, const std::string &sig, const std::string &detail,
                      const std::string &plan_text);
extern std::map<std::string, uint64_t> g_violation_counts;   // by signature
std::string json_escape(const std::string &s);

// ---------------------------------------------------------------- guarded library calls
// Runs f() "inside the library": allocations are ledgered, assertions are caught.
// Returns false if an assertion fired (record in sim_abort_last).
bool libcall(const std::function<void()> &f);
bool guardcall(const std::function<void()> &f);   // assertions caught, allocations NOT ledgered (code with static buffers)
std::string abort_site();     // "file:func:\"expr\"" of the last intercepted assertion

// ---------------------------------------------------------------- types
extern "C" asn_TYPE_descriptor_t *asn_pdu_collection[];
std::vector<asn_TYPE_descriptor_t *> &pdu_types();
asn_TYPE_descriptor_t *pdu_by_name(const std::string &name);

enum Syntax { SY_DER, SY_BER, SY_OER, SY_XER, SY_CXER, SY_UPER, SY_N };
const char *syntax_name(Syntax s);
bool syntax_from_name(const std::string &n, Syntax &s);
asn_transfer_syntax syntax_ats(Syntax s);          // for encode (BER -> DER) and decode

// encode through asn_encode into a vector. Returns er.encoded (or -1); aborted=true if assertion fired
struct EncResult { ssize_t encoded = -1; int err = 0; bool aborted = false; Bytes out; };
EncResult encode_to_vec(asn_TYPE_descriptor_t *td, const void *st, Syntax sy);

struct DecResult { asn_dec_rval_code_e code = RC_FAIL; size_t consumed = 0; bool aborted = false; };
// one library decode call over an exact-size heap copy of buf[0..n)
DecResult decode_call(asn_TYPE_descriptor_t *td, Syntax sy, void **st, const uint8_t *buf, size_t n,
                      const asn_codec_ctx_t *ctx = nullptr);
void free_struct(asn_TYPE_descriptor_t *td, void *st);   // ASN_STRUCT_FREE guarded
const char *rc_name(int code);

// value equality per DESIGN 4: byte-equal DER and CANONICAL-XER re-encodings
struct Fingerprint { bool der_ok = false, cxer_ok = false; Bytes der, cxer; bool aborted = false;
    bool operator==(const Fingerprint &o) const { return der_ok == o.der_ok && cxer_ok == o.cxer_ok && der == o.der && cxer == o.cxer; }
    bool operator!=(const Fingerprint &o) const { return !(*this == o); }
};
Fingerprint fingerprint(asn_TYPE_descriptor_t *td, const void *st);

// random value through asn_random_fill driven by the run's value stream. Returns nullptr if it fails.
void *random_value(asn_TYPE_descriptor_t *td, uint64_t value_seed, size_t budget);
// seed-file values (BASIC-XER lines under <values_dir>/<Type>.xer) for PDUs that cannot be random-filled
extern std::string g_values_dir;
extern std::string g_history;      // "seed start stride index tier" of the run in progress (set by the run loop)
std::vector<std::string> seed_value_texts(asn_TYPE_descriptor_t *td);
void *value_from_xer(asn_TYPE_descriptor_t *td, const std::string &text);

#endif
