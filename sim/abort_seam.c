/* Abort seam: --wrap=__assert_fail. An assertion is an observed outcome of a run. */
#include "sim_seams.h"
#include <string.h>
#include <stdio.h>
#include <stdlib.h>

struct sim_abort_record sim_abort_last;
jmp_buf sim_abort_jmp;
int sim_abort_armed;
long sim_abort_count;

void __real___assert_fail(const char *, const char *, unsigned, const char *) __attribute__((noreturn));

static void cpy(char *d, size_t n, const char *s) {
    if(!s) s = "";
    strncpy(d, s, n - 1);
    d[n - 1] = 0;
}

void __wrap___assert_fail(const char *expr, const char *file, unsigned line, const char *func) {
    if(sim_abort_armed) {
        const char *b = file ? strrchr(file, '/') : 0;
        cpy(sim_abort_last.file, sizeof(sim_abort_last.file), b ? b + 1 : file);
        cpy(sim_abort_last.func, sizeof(sim_abort_last.func), func);
        cpy(sim_abort_last.expr, sizeof(sim_abort_last.expr), expr);
        sim_abort_last.line = line;
        sim_abort_count++;
        sim_abort_armed = 0;
        longjmp(sim_abort_jmp, 1);
    }
    __real___assert_fail(expr, file, line, func);
}
