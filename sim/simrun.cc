// simrun: one binary per generated program. Worker mode iterates run indices; replay mode interprets one plan.
#include "engine.h"
#include "bulk.h"
#include "nest.h"
#include "walker.h"
#include <OCTET_STRING.h>
#include <asn_SET_OF.h>
#include <csignal>
#include <cstdlib>
#include <ctime>
#include <fstream>
#include <sstream>
#include <sys/time.h>
#include <unistd.h>

extern "C" __attribute__((used)) const char *__asan_default_options() {
    return "exitcode=77:detect_leaks=0:allocator_may_return_null=1:handle_abort=0:detect_stack_use_after_return=0:max_allocation_size_mb=2048";
}
extern "C" __attribute__((used)) const char *__ubsan_default_options() {
    return "print_stacktrace=1:halt_on_error=1:exitcode=77";
}

FILE *g_plan_dump; uint64_t g_plan_every = 0, g_plan_seen = 0;
void plan_dump_maybe(const std::string &plan) {
    if(!g_plan_dump || !g_plan_every) return;
    if(g_plan_seen++ % g_plan_every) return;
    fprintf(g_plan_dump, "%s----\n", plan.c_str()); fflush(g_plan_dump);
}

static Engine *engines[] = {&engine_c05, &engine_c07, &engine_c14, &engine_c04, &engine_c15};

// ---------------------------------------------------------------- watchdog (hang => exit 78)
static volatile uint64_t wd_last, wd_same;
extern volatile uint64_t g_progress;
static int wd_limit = 10;
static void on_alarm(int) {
    uint64_t p = g_progress;
    if(p == wd_last) {
        if(++wd_same >= (uint64_t)wd_limit) {
            const char m[] = "SIM-HANG: no progress\n";
            if(write(2, m, sizeof(m) - 1)) {}
            _exit(78);
        }
    } else { wd_last = p; wd_same = 0; }
}
// ---------------------------------------------------------------- SIGSEGV on an alternate stack (builds without ASan)
static void on_segv(int sig) {
    const char m[] = "SIM-SEGV: fatal signal (stack exhaustion or wild access)\n";
    if(write(2, m, sizeof(m) - 1)) {}
    (void)sig;
    _exit(79);
}
void sim_install_altstack() {
#if !defined(__SANITIZE_ADDRESS__)
    static __thread char *alt;
    if(!alt) alt = (char *)malloc(65536);
    stack_t ss; ss.ss_sp = alt; ss.ss_size = 65536; ss.ss_flags = 0;
    sigaltstack(&ss, 0);
    struct sigaction sa; memset(&sa, 0, sizeof sa);
    sa.sa_handler = on_segv; sa.sa_flags = SA_ONSTACK;
    sigaction(SIGSEGV, &sa, 0); sigaction(SIGBUS, &sa, 0);
#endif
}
static void watchdog_start() {
    struct sigaction sa; memset(&sa, 0, sizeof sa);
    sa.sa_handler = on_alarm; sa.sa_flags = SA_RESTART;
    // CPU time, not wall time: a worker that is merely descheduled on a loaded machine has not hung
    sigaction(SIGPROF, &sa, 0);
    struct itimerval it; it.it_interval.tv_sec = 1; it.it_interval.tv_usec = 0; it.it_value = it.it_interval;
    setitimer(ITIMER_PROF, &it, 0);
}

// ---------------------------------------------------------------- type / value choice
asn_TYPE_descriptor_t *choose_type(Rng &r) {
    static std::vector<asn_TYPE_descriptor_t *> menu;
    if(menu.empty()) {
        for(auto *t : pdu_types()) {
            int w = 2;
            if(is_recursive(t)) w = 3;
            if(reaches_kind(t, K_OPEN_TYPE) || reaches_kind(t, K_ANY)) w = 4;
            Kind k = kind_of(t);
            if(!kind_constructed(k)) w = 1;
            for(int i = 0; i < w; i++) menu.push_back(t);
        }
    }
    return menu[r.below(menu.size())];
}

void *value_from_spec(asn_TYPE_descriptor_t *td, const std::string &spec) {
    if(spec.rfind("fill:", 0) == 0) {
        unsigned long long seed = 0; unsigned long budget = 0;
        if(sscanf(spec.c_str(), "fill:%llu:%lu", &seed, &budget) != 2) return nullptr;
        if(!fillable(td)) return nullptr;
        return random_value(td, seed, budget);
    }
    if(spec.rfind("seedfile:", 0) == 0) {
        auto texts = seed_value_texts(td);
        size_t k = strtoul(spec.c_str() + 9, 0, 10);
        if(k >= texts.size()) return nullptr;
        return value_from_xer(td, texts[k]);
    }
    if(spec.rfind("bulk:", 0) == 0) {          // bulk:<template>:<units> - one big payload, from the XER templates of sim/bulk.h
        size_t c = spec.rfind(':');
        std::string name = spec.substr(5, c - 5); size_t k = (size_t)strtoull(spec.c_str() + c + 1, 0, 10);
        for(int i = 0; i < NBULK; i++) if(name == BULKS[i].name && BULKS[i].xer && std::string(td->name) == BULKS[i].type) return value_from_xer(td, BULKS[i].xer(k));
        return nullptr;
    }
    if(spec.rfind("nest:", 0) == 0) {          // nest:<template>:<depth> - a deeply nested value, decoded from the nest templates of sim/nest.h
        size_t c = spec.rfind(':');
        std::string name = spec.substr(5, c - 5); size_t depth = (size_t)strtoull(spec.c_str() + c + 1, 0, 10);
        for(int i = 0; i < NTEMPL; i++) if(name == TEMPLATES[i].name && std::string(td->name) == TEMPLATES[i].type) {
            Bytes S = TEMPLATES[i].gen(depth); void *st = nullptr;
            DecResult r = decode_call(td, TEMPLATES[i].sy, &st, S.data(), S.size());
            if(!r.aborted && r.code == RC_OK && st) return st;
            if(st && !r.aborted) free_struct(td, st);
            return nullptr;
        }
        return nullptr;
    }
    if(spec == "zero") {
        size_t sz = struct_size_of(td);
        return sz ? sim_alloc_tracked(sz) : nullptr;
    }
    return nullptr;
}

static void reach_probes(const ValueChoice &c) {
        // reach probes: did the workload meet the codecs' size thresholds (16K fragments, 64K counts, scratch pads)?
        size_t max_el = 0, max_str = 0;
        walk(c.td, c.st, [&](const Node &n) {
            Kind k = kind_of(n.td);
            if(k == K_SET_OF || k == K_SEQUENCE_OF) { size_t cnt = (size_t)_A_CSET_FROM_VOID(n.ptr)->count; if(cnt > max_el) max_el = cnt; }
            else if(kind_octets(k)) { size_t sz = ((const OCTET_STRING_t *)n.ptr)->size; if(sz > max_str) max_str = sz; }
            return true; }, 2000);
        G.max("reach.max_elements", max_el); G.max("reach.max_string_octets", max_str);
        if(max_el >= 16384) G.add("reach.values_with_16K_elements");
        if(max_el >= 128) G.add("reach.values_with_128_elements");
        if(max_str >= 16384) G.add("reach.values_with_16K_octet_string");
        if(max_str >= 65536) G.add("reach.values_with_64K_octet_string");
        if(max_str >= 128) G.add("reach.values_with_128_octet_string");
}

ValueChoice choose_value(uint64_t run_seed, size_t max_budget) {
    ValueChoice c;
    Rng rt = stream(run_seed, "type"), rv = stream(run_seed, "value");
    c.td = choose_type(rt);
    // now and then (1 run in 16, on programs that have such types): a value with one big payload, enough for several 16K PER
    // fragments and multi-octet length determinants in every syntax
    static std::vector<int> bulk_here = [] { std::vector<int> v; for(int i = 0; i < NBULK; i++) if(BULKS[i].xer && pdu_by_name(BULKS[i].type)) v.push_back(i); return v; }();
    if(!bulk_here.empty() && max_budget >= 160 && rv.chance(1, 16)) {
        static const size_t ks[] = {20000, 40000, 70000};
        const Bulk &b = BULKS[bulk_here[rv.below(bulk_here.size())]];
        c.td = pdu_by_name(b.type);
        c.origin = std::string("bulk:") + b.name + ":" + std::to_string(ks[rv.below(3)]);
        c.st = value_from_spec(c.td, c.origin);
        if(c.st) { G.add("reach.bulk_values"); reach_probes(c); return c; }
        c.td = choose_type(rt);
    }
    // ... and 1 run in 24: a value nested 10 / 35 / 60 levels deep through a recursive type (work that is exponential in the depth
    // cannot hide at the depths asn_random_fill reaches)
    static std::vector<int> nest_here = [] { std::vector<int> v; for(int i = 0; i < NTEMPL; i++) if(pdu_by_name(TEMPLATES[i].type) && !strstr(TEMPLATES[i].name, "-skip")) v.push_back(i); return v; }();
    if(!nest_here.empty() && max_budget >= 160 && rv.chance(1, 24)) {
        static const size_t ds[] = {10, 35, 60};
        const Tmpl &t = TEMPLATES[nest_here[rv.below(nest_here.size())]];
        asn_TYPE_descriptor_t *ntd = pdu_by_name(t.type);
        std::string spec = std::string("nest:") + t.name + ":" + std::to_string(ds[rv.below(3)]);
        void *st = value_from_spec(ntd, spec);
        if(st) { c.td = ntd; c.origin = spec; c.st = st; G.add("reach.nested_values"); reach_probes(c); return c; }
    }
    if(fillable(c.td) && !(rv.chance(1, 4) && !seed_value_texts(c.td).empty())) {      // 1 in 4 from the seed texts where a fillable type has some
        size_t budget = 8 + (size_t)rv.below(max_budget - 7);
        if(rv.chance(1, 4)) budget = 8 + (size_t)rv.below(40);
        else if(max_budget >= 160 && !is_recursive(c.td) && rv.chance(1, 12)) budget = 16000 + (size_t)rv.below(54000);   // long strings / lists: 16K fragmentation, multi-octet lengths
        uint64_t vs = rv.next();
        c.origin = "fill:" + std::to_string(vs) + ":" + std::to_string(budget);
    } else {
        auto texts = seed_value_texts(c.td);
        if(texts.empty()) { G.add("skip.no_seed_values"); return c; }
        c.origin = "seedfile:" + std::to_string(rv.below(texts.size()));
    }
    c.st = value_from_spec(c.td, c.origin);
    if(!c.st) G.add("skip.value_not_made");
    else reach_probes(c);
    return c;
}

// ---------------------------------------------------------------- main
static std::string slurp(const char *path) {
    std::ifstream in(path, std::ios::binary);
    std::stringstream ss; ss << in.rdbuf();
    return ss.str();
}

static void print_summary(const char *prop, double wall) {
    printf("{\"type\":\"summary\",\"property\":\"%s\",\"program\":\"%s\",\"wall_s\":%.3f,\"log_hash\":\"%016llx\",\"counters\":{",
           prop, SIM_PROGRAM, wall, (unsigned long long)G.log_hash);
    bool first = true;
    for(auto &kv : G.n) { printf("%s\"%s\":%llu", first ? "" : ",", json_escape(kv.first).c_str(), (unsigned long long)kv.second); first = false; }
    printf("},\"distinct\":{");
    first = true;
    for(auto &kv : G.distinct) { printf("%s\"%s\":%zu", first ? "" : ",", json_escape(kv.first).c_str(), kv.second.size()); first = false; }
    printf("},\"violations\":{");
    first = true;
    for(auto &kv : g_violation_counts) { printf("%s\"%s\":%llu", first ? "" : ",", json_escape(kv.first).c_str(), (unsigned long long)kv.second); first = false; }
    printf("},\"samples\":[");
    for(size_t i = 0; i < G.samples.size(); i++) printf("%s\"%s\"", i ? "," : "", json_escape(G.samples[i]).c_str());
    printf("]}\n");
    fflush(stdout);
}

static void dump_distinct(const std::string &dir, const std::string &tag) {
    for(auto &kv : G.distinct) {
        std::string path = dir + "/distinct." + kv.first + "." + tag;
        FILE *f = fopen(path.c_str(), "wb");
        if(!f) continue;
        std::vector<uint64_t> v(kv.second.begin(), kv.second.end());
        if(!v.empty()) fwrite(v.data(), 8, v.size(), f);
        fclose(f);
    }
}

int main(int argc, char **argv) {
    std::string prop, replay, status, distinct_dir, tag = "0";
    uint64_t seed = 1, start = 0, stride = 1, count = 0;
    bool thorough = false, runlog = false, keeplog = false, list = false;
    double budget_s = 0;
    for(int i = 1; i < argc; i++) {
        std::string a = argv[i];
        auto nx = [&]() -> const char * { return i + 1 < argc ? argv[++i] : ""; };
        if(a == "--prop") prop = nx();
        else if(a == "--seed") seed = strtoull(nx(), 0, 10);
        else if(a == "--start") start = strtoull(nx(), 0, 10);
        else if(a == "--stride") stride = strtoull(nx(), 0, 10);
        else if(a == "--count") count = strtoull(nx(), 0, 10);
        else if(a == "--tier") thorough = std::string(nx()) == "thorough";
        else if(a == "--replay") replay = nx();
        else if(a == "--status") status = nx();
        else if(a == "--values") g_values_dir = nx();
        else if(a == "--distinct-dir") distinct_dir = nx();
        else if(a == "--tag") tag = nx();
        else if(a == "--runlog") runlog = true;
        else if(a == "--log") keeplog = true;
        else if(a == "--budget") budget_s = atof(nx());
        else if(a == "--wd") wd_limit = atoi(nx());
        else if(a == "--plan-dump") g_plan_dump = fopen(nx(), "w");
        else if(a == "--plan-every") g_plan_every = strtoull(nx(), 0, 10);
        else if(a == "--list-types") list = true;
        else { fprintf(stderr, "unknown arg %s\n", a.c_str()); return 64; }
    }
    if(list) {
        for(auto *t : pdu_types())
            printf("%s kind=%s fillable=%d recursive=%d size=%zu\n", t->name, kind_name(kind_of(t)), fillable(t), is_recursive(t), struct_size_of(t));
        return 0;
    }
    if(!status.empty()) status_open(status.c_str());
    watchdog_start();
    sim_install_altstack();

    if(!replay.empty()) {
        Plan p; std::string err;
        if(!Plan::parse(slurp(replay.c_str()), p, err)) { fprintf(stderr, "bad plan: %s\n", err.c_str()); return 64; }
        std::string pid = p.get("property");
        Engine *e = nullptr;
        for(auto *x : engines) if(x && pid == x->id) e = x;
        if(!e) { fprintf(stderr, "unknown property in plan: %s\n", pid.c_str()); return 64; }
        if(e->init) e->init(true);
        EV.keep = keeplog;
        status_head(p.head_str()); status_ops(p.ops_str());
        ReplayResult r;
        if(!p.get("rerun_index").empty()) {
            uint64_t vs = strtoull(p.get("verif_seed", "1").c_str(), 0, 10), idx = strtoull(p.get("rerun_index").c_str(), 0, 10);
            sim_alloc_reset();
            e->run(derive_run_seed(vs, e->id, SIM_PROGRAM, idx), idx, p.get("tier") == "thorough");
            if(!g_violation_counts.empty()) { r.violated = true; r.sig = g_violation_counts.begin()->first; r.detail = "violation while re-running index " + p.get("rerun_index"); }
        } else if(!p.get("rerun_range").empty()) {
            // the whole sequence of run indices a worker went through, up to the failing one, in this fresh process
            unsigned long long a = 0, st = 1, b = 0; sscanf(p.get("rerun_range").c_str(), "%llu %llu %llu", &a, &st, &b);
            uint64_t vs = strtoull(p.get("verif_seed", "1").c_str(), 0, 10); bool th = p.get("tier") == "thorough";
            if(!st) st = 1;
            std::map<std::string, uint64_t> before;
            for(uint64_t i = a; i <= b; i += st) {
                if(i + st > b) before = g_violation_counts;
                EV.reset(); sim_alloc_reset(); status_index(i); status_progress();
                e->run(derive_run_seed(vs, e->id, SIM_PROGRAM, i), i, th);
            }
            for(auto &kv : g_violation_counts) if(!before.count(kv.first) || before[kv.first] != kv.second) { r.violated = true; r.sig = kv.first; break; }
            if(!r.violated && !g_violation_counts.empty()) { r.violated = true; r.sig = g_violation_counts.begin()->first; }
            if(r.violated) r.detail = "violation at the end of the run-index history " + p.get("rerun_range") + " (depends on what the process did before)";
        } else r = e->replay(p);
        if(keeplog) fputs(EV.text.c_str(), stderr);
        printf("{\"type\":\"replay\",\"property\":\"%s\",\"violated\":%s,\"skipped\":%s,\"sig\":\"%s\",\"detail\":\"%s\",\"log_hash\":\"%016llx\"}\n",
               pid.c_str(), r.violated ? "true" : "false", r.skipped ? "true" : "false", json_escape(r.sig).c_str(),
               json_escape(r.detail).c_str(), (unsigned long long)EV.h);
        fflush(stdout);
        return r.violated ? 1 : 0;
    }

    Engine *e = nullptr;
    for(auto *x : engines) if(x && prop == x->id) e = x;
    if(!e) { fprintf(stderr, "unknown property %s\n", prop.c_str()); return 64; }
    if(e->init) e->init(thorough);
    struct timespec t0, t1; clock_gettime(CLOCK_MONOTONIC, &t0);
    for(uint64_t i = start; i < count; i += stride) {
        uint64_t rs = derive_run_seed(seed, e->id, SIM_PROGRAM, i);
        status_index(i);
        {   // until the engine publishes a precise plan, the replay of a death is "run this index again"
            char hb[256]; snprintf(hb, sizeof hb, "property %s\nprogram %s\nverif_seed %llu\nrerun_index %llu\ntier %s\n", e->id, SIM_PROGRAM,
                                   (unsigned long long)seed, (unsigned long long)i, thorough ? "thorough" : "quick");
            status_head(hb); status_ops("");
        }
        EV.reset();
        EV.ev("seed %llu", (unsigned long long)rs);
        sim_alloc_reset();
        { char hb2[160]; snprintf(hb2, sizeof hb2, "%llu %llu %llu %llu %s", (unsigned long long)seed, (unsigned long long)start, (unsigned long long)stride, (unsigned long long)i, thorough ? "thorough" : "quick"); g_history = hb2; }
        e->run(rs, i, thorough);
        G.log_hash += EV.h;
        G.add("runs");
        if(runlog) { printf("RUN %llu %016llx\n", (unsigned long long)i, (unsigned long long)EV.h); fflush(stdout); }
        g_progress++;
        if(budget_s > 0) {
            // wall clock is read only to stop early; it never influences a run
            clock_gettime(CLOCK_MONOTONIC, &t1);
            if((t1.tv_sec - t0.tv_sec) + (t1.tv_nsec - t0.tv_nsec) / 1e9 > budget_s) { G.add("truncated_by_budget"); G.n["last_index"] = i; break; }
        }
    }
    clock_gettime(CLOCK_MONOTONIC, &t1);
    if(!distinct_dir.empty()) dump_distinct(distinct_dir, std::string(SIM_PROGRAM) + "." + tag);
    print_summary(e->id, (t1.tv_sec - t0.tv_sec) + (t1.tv_nsec - t0.tv_nsec) / 1e9);
    return 0;
}
