/*
 * Environment shim for the asn1c process (C12, DESIGN 5.7).
 * Linked into the compiler with --wrap=main,malloc,calloc,realloc,free,strdup; started under `setarch -R`.
 * The seed (ENVSHIM_SEED) - not the kernel - decides: heap base, stack shift, stale contents of the start-up
 * stack, junk in the first 16 bytes of recycled chunks (what free-list links are under ASLR). Fresh memory is
 * zero as from the kernel; recycled memory keeps its stale data beyond the junk.
 * Only differences two real runs of the same command can exhibit are injected.
 */
#define _GNU_SOURCE
#include <stdint.h>
#include <stdlib.h>
#include <string.h>
#include <stdio.h>
#include <unistd.h>
#include <sys/mman.h>
#include <alloca.h>

int __real_main(int, char **, char **);
void *__real_malloc(size_t); void __real_free(void *); void *__real_realloc(void *, size_t); void *__real_calloc(size_t, size_t);

static uint64_t rs[2];
static uint64_t rnd(void) {
    uint64_t s0 = rs[0], s1 = rs[1], r = s0 + s1;
    s1 ^= s0; rs[0] = ((s0 << 24) | (s0 >> 40)) ^ s1 ^ (s1 << 16); rs[1] = (s1 << 37) | (s1 >> 27);
    return r;
}
static void rseed(uint64_t s) {
    uint64_t z = s;
    for(int i = 0; i < 2; i++) { z += 0x9e3779b97f4a7c15ULL; uint64_t x = z; x = (x ^ (x >> 30)) * 0xbf58476d1ce4e5b9ULL; x = (x ^ (x >> 27)) * 0x94d049bb133111ebULL; rs[i] = x ^ (x >> 31); }
}

#define ARENA_SIZE ((size_t)3 << 30)
static char *arena, *bump, *arena_end;
static int active;
struct hdr { uint64_t size; uint64_t magic; };          /* 16 bytes in front of every chunk */
#define MAGIC 0x5a5a17c0ffee0000ULL
#define NCLASS 4096                                      /* size classes of 16 bytes up to 64 KiB */
static void *freelist[NCLASS];
static uint64_t n_fresh, n_recycled, n_free, n_foreign;

static int ours(const void *p) { return arena && (const char *)p >= arena && (const char *)p < arena_end; }

static void *shim_alloc(size_t n, int zero) {
    size_t sz = (n + 15) & ~(size_t)15; if(!sz) sz = 16;
    size_t cls = sz / 16;
    /* best fit among the recycled chunks of this and the next few size classes: a real allocator splits and coalesces, so a
     * request is routinely served from a chunk that used to hold something bigger (whose stale data it then exposes) */
    size_t fit = cls;
    while(fit < NCLASS && fit < cls + 24 && !freelist[fit]) fit++;
    if(fit < NCLASS && fit < cls + 24 && freelist[fit]) {
        char *p = freelist[fit];
        freelist[fit] = *(void **)p;                      /* next pointer lives in the first 8 bytes */
        struct hdr *h = (struct hdr *)(p - 16);
        h->size = n;                                      /* (its capacity shrinks to the request: the tail is lost, as after a split) */
        /* what a real allocator leaves behind: two link words that depend on the address space layout */
        uint64_t j0 = (uint64_t)(uintptr_t)arena + (rnd() & 0xfffffff0), j1 = (uint64_t)(uintptr_t)arena + (rnd() & 0xfffffff0);
        memcpy(p, &j0, 8); if(sz >= 16) memcpy(p + 8, &j1, 8);
        if(zero) memset(p, 0, n);
        n_recycled++;
        return p;
    }
    if(bump + sz + 16 > arena_end) return 0;
    struct hdr *h = (struct hdr *)bump; h->size = n; h->magic = MAGIC;
    char *p = bump + 16; bump += sz + 16;
    n_fresh++;
    return p;                                            /* fresh pages are zero */
}
static void shim_free(void *p) {
    struct hdr *h = (struct hdr *)((char *)p - 16);
    size_t sz = (h->size + 15) & ~(size_t)15; if(!sz) sz = 16;
    size_t cls = sz / 16;
    n_free++;
    if(cls < NCLASS) { *(void **)p = freelist[cls]; freelist[cls] = p; }
    /* larger chunks are simply never reused */
}

void *__wrap_malloc(size_t n) { if(!active) return __real_malloc(n); return shim_alloc(n, 0); }
void *__wrap_calloc(size_t a, size_t b) { if(!active) return __real_calloc(a, b); size_t t; if(__builtin_mul_overflow(a, b, &t)) return 0; return shim_alloc(t, 1); }
void __wrap_free(void *p) {
    if(!p) return;
    if(!ours(p)) { n_foreign++; __real_free(p); return; }   /* handed out by an un-wrapped libc allocation (vasprintf, getline, ...) */
    shim_free(p);
}
void *__wrap_realloc(void *o, size_t n) {
    if(!o) return __wrap_malloc(n);
    if(!ours(o)) return __real_realloc(o, n);
    struct hdr *h = (struct hdr *)((char *)o - 16);
    size_t old = h->size;
    if(((n + 15) & ~(size_t)15) == ((old + 15) & ~(size_t)15) && n) { h->size = n; return o; }
    void *p = shim_alloc(n, 0);
    if(!p) return 0;
    memcpy(p, o, old < n ? old : n);
    shim_free(o);
    return p;
}
char *__wrap_strdup(const char *s) { size_t n = strlen(s) + 1; char *p = __wrap_malloc(n); if(p) memcpy(p, s, n); return p; }

static __attribute__((noinline)) void paint_stack(uint64_t stackish) {
    volatile uint64_t junk[8192];                        /* 64 KiB below the frame main() will start in */
    for(int i = 0; i < 8192; i++) {
        uint64_t r = rnd();
        junk[i] = (r & 3) == 0 ? 0 : ((r & 4) ? (uint64_t)(uintptr_t)arena + (r >> 40) : stackish - (r >> 44));   /* address-like words */
    }
    (void)junk[rnd() & 8191];
}

static __attribute__((noinline)) int shifted_main(int argc, char **argv, char **envp, size_t shift) {
    volatile char *pad = alloca(shift + 16);
    pad[0] = 1;
    int rc = __real_main(argc, argv, envp);
    pad[1] = (char)rc;
    return rc;
}

static size_t g_shift;
static void write_stats(void) {
    const char *st = getenv("ENVSHIM_STATS");
    active = 0;
    if(st) { FILE *f = fopen(st, "w"); if(f) { fprintf(f, "{\"heap_base\":%llu,\"stack_shift\":%zu,\"fresh\":%llu,\"recycled\":%llu,\"frees\":%llu,\"foreign_frees\":%llu}\n",
            (unsigned long long)(uintptr_t)arena, g_shift, (unsigned long long)n_fresh, (unsigned long long)n_recycled, (unsigned long long)n_free, (unsigned long long)n_foreign); fclose(f); } }
}

int __wrap_main(int argc, char **argv, char **envp) {
    const char *s = getenv("ENVSHIM_SEED");
    if(!s) return __real_main(argc, argv, envp);
    uint64_t seed = strtoull(s, 0, 10);
    rseed(seed * 0x9e3779b97f4a7c15ULL + 12345);
    uintptr_t base = 0x100000000000ULL + ((rnd() & 0xfffff) << 16);     /* seeded heap base (64 KiB granules) */
    arena = mmap((void *)base, ARENA_SIZE, PROT_READ | PROT_WRITE, MAP_PRIVATE | MAP_ANONYMOUS | MAP_NORESERVE | MAP_FIXED_NOREPLACE, -1, 0);
    if(arena == MAP_FAILED) { arena = mmap(0, ARENA_SIZE, PROT_READ | PROT_WRITE, MAP_PRIVATE | MAP_ANONYMOUS | MAP_NORESERVE, -1, 0); if(arena == MAP_FAILED) { perror("envshim mmap"); return 99; } }
    bump = arena; arena_end = arena + ARENA_SIZE;
    size_t shift = (size_t)(rnd() & 0xfff0);                           /* stack shift 0..64 KiB, 16-aligned */
    paint_stack((uint64_t)(uintptr_t)&seed);
    g_shift = shift;
    atexit(write_stats);
    active = 1;
    return shifted_main(argc, argv, envp, shift);
}
