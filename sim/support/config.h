#define HAVE_128_BIT_INT 1
#define HAVE_DECL_STRCASECMP 1
#define HAVE_DECL_VASPRINTF 0
#define HAVE_DLFCN_H 1
#define HAVE_INTTYPES_H 1
#define HAVE_MKSTEMPS 1
#define HAVE_STDINT_H 1
#define HAVE_STDIO_H 1
#define HAVE_STDLIB_H 1
#define HAVE_STRINGS_H 1
#define HAVE_STRING_H 1
#define HAVE_STRTOIMAX 1
#define HAVE_STRTOLL 1
#define HAVE_SYMLINK 1
#define HAVE_SYS_PARAM_H 1
#define HAVE_SYS_STAT_H 1
#define HAVE_SYS_TYPES_H 1
#define HAVE_TIMEGM 1
#define HAVE_UNISTD_H 1
#define LT_OBJDIR ".libs/"
#define PACKAGE "asn1c"
#define PACKAGE_BUGREPORT "vlm@lionet.info"
#define PACKAGE_NAME "asn1c"
#define PACKAGE_STRING "asn1c 0.9.29"
#define PACKAGE_TARNAME "asn1c"
#define PACKAGE_URL ""
#define PACKAGE_VERSION "0.9.29"
#define SIZEOF_VOID_P 8
#define STDC_HEADERS 1
#define VERSION "0.9.29"
#if defined AC_APPLE_UNIVERSAL_BUILD
# if defined __BIG_ENDIAN__
#  define WORDS_BIGENDIAN 1
# endif
#else
# ifndef WORDS_BIGENDIAN
# endif
#endif
#define YYTEXT_POINTER 1
