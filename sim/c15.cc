// C15: bounded stack and heap against a hostile, stalling peer.  DESIGN 5.5
#include "engine.h"
#include "bulk.h"
#include "nest.h"
#include "walker.h"
#include "transport.h"
#include "ber.h"
#include <pthread.h>
#include <sys/mman.h>
#include <algorithm>
#include <cstdlib>

namespace {

// ---------------------------------------------------------------- heap budget (measured, see DESIGN 5.5)
// live + request <= HEAP_A * delivered_bytes + HEAP_B at every allocation made by the decoder
static const long HEAP_A = 1024;         // bytes of heap per byte of input delivered so far
static const long HEAP_B = 320 * 1024;   // constant part: structures of fixed size, scratch, and ONE PER fragment of the widest character type
                                         // (X.691 fragments carry up to 64K units, asn1c reserves a fragment before reading it: 64K x 4 octets for UniversalString)


static std::vector<const Tmpl *> g_valid;      // templates whose depth-3 instance the library decodes completely
static std::vector<std::string> g_invalid;

static void c15_init(bool) {
    for(int i = 0; i < NTEMPL; i++) {
        const Tmpl &t = TEMPLATES[i];
        asn_TYPE_descriptor_t *td = pdu_by_name(t.type);
        if(!td) continue;
        Bytes s = t.gen(3);
        void *st = nullptr;
        sim_alloc_reset();
        DecResult r = decode_call(td, t.sy, &st, s.data(), s.size());
        bool ok = !r.aborted && r.code == RC_OK && (t.sy == SY_UPER ? r.consumed > 0 : r.consumed == s.size());
        if(ok) {   // and it really nests: depth 3 must differ from depth 2 after decoding
            void *st2 = nullptr; Bytes s2 = t.gen(2);
            DecResult r2 = decode_call(td, t.sy, &st2, s2.data(), s2.size());
            Fingerprint a = fingerprint(td, st), b = fingerprint(td, st2);
            if(r2.code != RC_OK || (a == b && !strstr(t.name, "nested-string") && !strstr(t.name, "-skip"))) ok = false;   // string segmentation nests without changing the value
            if(st2) free_struct(td, st2);
        }
        if(st && !r.aborted) free_struct(td, st);
        sim_alloc_free_all_live();
        if(ok) { g_valid.push_back(&t); G.n[std::string("c15.template_valid.") + t.name] = 1; } else { g_invalid.push_back(t.name); G.n[std::string("c15.template_rejected_at_depth_3.") + t.name] = 1; }
    }
}

// ---------------------------------------------------------------- stack runs in a thread we own
struct StackJob {
    asn_TYPE_descriptor_t *td; Syntax sy; const Bytes *S; long limit; size_t chunk; int place = 0;   // where the caller keeps its context: 0 stack, 1 static, 2 heap
    int code; size_t consumed; bool aborted; size_t calls;
};
static void *stack_thread(void *arg) {
    StackJob *j = (StackJob *)arg;
    sim_install_altstack();
    // The guard measures distances from the address of a context; the public entry points copy a caller-supplied context
    // onto their own stack first, so a caller may keep its own anywhere (converter-example.c keeps it in static storage).
    asn_codec_ctx_t ctx_stack; static asn_codec_ctx_t ctx_static; asn_codec_ctx_t *ctx_heap = (asn_codec_ctx_t *)malloc(sizeof(asn_codec_ctx_t));
    asn_codec_ctx_t &ctx = j->place == 1 ? ctx_static : j->place == 2 ? *ctx_heap : ctx_stack;
    memset(&ctx, 0, sizeof ctx);
    ctx.max_stack_size = j->limit > 0 ? (size_t)j->limit : 0;
    const asn_codec_ctx_t *pctx = j->limit > 0 ? &ctx : nullptr;
    void *st = nullptr;
    size_t off = 0, avail = 0; const size_t n = j->S->size();
    j->code = RC_WMORE; j->calls = 0; j->aborted = false;
    while(j->code == RC_WMORE) {
        size_t d = j->chunk ? std::min(j->chunk, n - avail) : n - avail;
        avail += d;
        status_progress();
        DecResult r = decode_call(j->td, j->sy, &st, j->S->data() + off, avail - off, pctx);
        j->calls++;
        if(r.aborted) { j->aborted = true; st = nullptr; break; }
        j->code = r.code; off += r.consumed;
        if(avail >= n && r.code == RC_WMORE) break;
    }
    j->consumed = off;
    // free without recursion limits of our own: ASN_STRUCT_FREE recurses too, but that is the caller's structure, built
    // only as deep as the decoder allowed
    if(st) free_struct(j->td, st);
    free(ctx_heap);
    return nullptr;
}

static const size_t STK_SIZE = 8u << 20;
static uint8_t *g_stk;
static size_t run_on_stack(void *(*fn)(void *), void *arg) {
    if(!g_stk) {
        g_stk = (uint8_t *)mmap(0, STK_SIZE + 4096, PROT_READ | PROT_WRITE, MAP_PRIVATE | MAP_ANONYMOUS | MAP_NORESERVE, -1, 0);
        mprotect(g_stk, 4096, PROT_NONE);            // guard page at the low end
    }
    uint8_t *base = g_stk + 4096;
    memset(base, 0xA7, STK_SIZE - 65536);            // paint (leave the top for thread start-up)
    pthread_attr_t at; pthread_attr_init(&at);
    pthread_attr_setstack(&at, base, STK_SIZE);
    pthread_t th;
    if(pthread_create(&th, &at, fn, arg) != 0) { pthread_attr_destroy(&at); return 0; }
    pthread_join(th, nullptr);
    pthread_attr_destroy(&at);
    size_t i = 0;
    while(i < STK_SIZE - 65536 && base[i] == 0xA7) i++;
    return STK_SIZE - i;                             // high-water mark
}

struct Verdict { bool violated = false; std::string cls, site, detail; };
static std::string mk_sig(const Verdict &v) { return "C15/" + v.cls + "/" + v.site; }

static Verdict do_stack(const Tmpl &t, size_t depth, long limit, size_t chunk, size_t *hw_out, int *code_out, int place = 0) {
    Verdict v;
    asn_TYPE_descriptor_t *td = pdu_by_name(t.type);
    Bytes S = t.gen(depth);
    sim_alloc_reset();
    StackJob job; job.td = td; job.sy = t.sy; job.S = &S; job.limit = limit; job.chunk = chunk; job.place = place;
    size_t hw = run_on_stack(stack_thread, &job);
    EV.ev("stack %s depth=%zu limit=%ld chunk=%zu -> %s consumed=%zu calls=%zu", t.name, depth, limit, chunk, job.aborted ? "ABORT" : rc_name(job.code), job.consumed, job.calls);
    if(hw_out) *hw_out = hw;
    if(code_out) *code_out = job.code;
    if(job.aborted) { v.violated = true; v.cls = "abort"; v.site = std::string(t.name) + ":" + abort_site(); v.detail = "assertion while decoding a depth-" + L((long)depth) + " nest"; }
    sim_alloc_free_all_live();
    return v;       // stack exhaustion itself kills the process (SIGSEGV on the alternate stack -> exit 79)
}

// ---------------------------------------------------------------- heap runs
struct HeapOutcome { long refusals = 0; size_t worst = 0; size_t peak = 0; int code = RC_WMORE; };
static Verdict do_heap(asn_TYPE_descriptor_t *td, Syntax sy, const Bytes &S, const std::vector<Op> &ops, bool enforce, HeapOutcome &ho, long A = HEAP_A, long B = HEAP_B) {
    Verdict v;
    sim_alloc_reset();
    void *st = nullptr;
    size_t off = 0, avail = 0;
    for(const Op &op : ops) {
        if(op.name != "deliver") continue;
        long d = (op.args.empty() || op.args[0] == "rest") ? -1 : op.argl(0);
        if(d < 0 || (size_t)d > S.size() - avail) d = (long)(S.size() - avail);
        avail += (size_t)d;
        status_progress();
        if(enforce) sim_alloc_set_budget(A * (long)avail + B);
        DecResult r = decode_call(td, sy, &st, S.data() + off, avail - off);
        sim_alloc_set_budget(-1);
        EV.ev("heap deliver %ld avail %zu -> %s %zu peak=%zu refusals=%ld", d, avail, r.aborted ? "ABORT" : rc_name(r.code), r.consumed, sim_alloc_peak_bytes(), sim_alloc_budget_refusals());
        if(r.aborted) { v.violated = true; v.cls = "abort"; v.site = std::string(syntax_name(sy)) + ":" + abort_site(); v.detail = "assertion inside the decoder"; st = nullptr; break; }
        ho.code = r.code;
        if(sim_alloc_budget_refusals()) {
            ho.refusals = sim_alloc_budget_refusals(); ho.worst = sim_alloc_budget_worst_request();
            v.violated = true; v.cls = "heap-bomb"; v.site = std::string(syntax_name(sy)) + "/" + kind_name(kind_of(td));
            v.detail = "decoder asked for " + L((long)ho.worst) + " bytes (live " + L((long)sim_alloc_live_bytes()) + ") with only " + L((long)avail)
                       + " input bytes delivered; budget " + L(A) + "*n+" + L(B);
            break;
        }
        off += r.consumed;
        if(r.code != RC_WMORE) break;
    }
    ho.peak = sim_alloc_peak_bytes();
    if(st) free_struct(td, st);
    sim_alloc_free_all_live();
    return v;
}

static const uint8_t BIGLEN[][6] = {{5, 0x84, 0x7f, 0xff, 0xff, 0xff}, {5, 0x84, 0x0f, 0xff, 0xff, 0xff}, {4, 0x83, 0xff, 0xff, 0xff}, {3, 0x82, 0xff, 0xff},
                                    {1, 0xc4}, {1, 0xc3}, {2, 0xbf, 0xff}, {3, 0xc4, 0xc4, 0xc4}, {2, 0xff, 0xff}, {5, 0x04, 0x7f, 0xff, 0xff, 0xff}};

static Bytes hostile(const Bytes &E, Syntax sy, Rng &r, std::string &how) {
    Bytes S = E;
    unsigned mode = (unsigned)r.below(5);
    const uint8_t *bl = BIGLEN[r.below(10)];
    if(mode == 0 && (sy == SY_DER || sy == SY_BER)) {
        // rewrite the length of a TLV to a maximal one, then stall a few bytes later
        std::vector<size_t> b; ber_boundaries(S, b);
        size_t pos = b.empty() ? 1 : b[r.below(b.size())] + 1;
        if(pos > S.size()) pos = S.size();
        S.resize(pos); for(unsigned i = 0; i < bl[0]; i++) S.push_back(bl[1 + i]);
        size_t extra = r.below(12); for(size_t i = 0; i < extra; i++) S.push_back((uint8_t)r.below(256));
        how = "ber-length-blowup+stall";
    } else if(mode <= 1) {
        size_t pos = S.empty() ? 0 : r.below(S.size());
        S.resize(pos); for(unsigned i = 0; i < bl[0]; i++) S.push_back(bl[1 + i]);
        size_t extra = r.below(12); for(size_t i = 0; i < extra; i++) S.push_back((uint8_t)r.below(256));
        how = "determinant-blowup+stall";
    } else if(mode == 2) {
        // flood of maximal count / fragment determinants (zero-width element bombs, never-ending fragments)
        size_t pos = S.empty() ? 0 : r.below(std::min<size_t>(S.size(), 8) + 1);
        S.resize(pos);
        size_t nrep = 1 + r.below(64);
        for(size_t i = 0; i < nrep; i++) for(unsigned q = 0; q < bl[0]; q++) S.push_back(bl[1 + q]);
        how = "determinant-flood";
    } else if(mode == 3) {
        std::vector<std::string> ap; transport_damage(S, r, nullptr, ap, 1 + (unsigned)r.below(3));
        how = "transport";
        for(auto &a : ap) how += "," + a;
    } else {
        // open-type / container length larger than what follows: bump one byte upward
        if(!S.empty()) { size_t p = r.below(S.size()); S[p] = (uint8_t)(S[p] | 0x7f); }
        if(S.size() > 4) S.resize(S.size() - r.below(S.size() / 2 + 1));
        how = "length-bump+truncate";
    }
    if(S.size() > 8192) S.resize(8192);
    return S;
}

// ---------------------------------------------------------------- bulk runs: large VALID inputs (a well-behaved but generous peer)
// A value with one big payload is built from XER text, encoded by the library in each syntax, and decoded - optionally as an
// older version of the type that has to skip the payload as an unknown addition - in 16K deliveries. Payloads are octets,
// characters or bits, so the heap a decoder may hold is a small multiple of what has arrived: HEAP_A_BULK bytes per byte
// (>= 4x the largest ratio measured on the pinned tree, SIM_C15_CALIBRATE=1) instead of the 1024 that one-bit elements need.
// This is what exposes super-linear growth policies (a buffer that is re-grown geometrically per fragment).
static const long HEAP_A_BULK = 24;
static const size_t BULK_SIZES[] = {40000, 140000, 400000};
// builds the input; returns false when this program / syntax cannot produce it
static bool bulk_input(const Bulk &b, size_t k, Syntax sy, Bytes &S, bool handwritten_xer = false) {
    asn_TYPE_descriptor_t *td = pdu_by_name(b.type);
    if(!td || !pdu_by_name(b.decode_as)) return false;
    // UPER re-assembles the contents of an open type in a buffer of its own at EVERY nesting level (about 3.5 x depth x n on the pinned
    // tree; the depth is bounded by the stack guard, so it is a - large - constant factor): observed, documented (DESIGN 15.5), not judged
    if(sy == SY_UPER && strstr(b.name, "deep-payload")) return false;
    if(!b.xer) {                       // hand-written bytes for one syntax
        if(!b.raw || (b.raw_syntax == 1 && sy != SY_DER) || (b.raw_syntax == 4 && sy != SY_XER)) return false;       // the grid's "DER" column carries the BER-only inputs
        S = b.raw(k); return true;
    }
    std::string x = b.xer(k);
    // the template's own text is valid XER too, and not what the library's encoder writes: contiguous hex / bit text without the
    // blanks and line breaks of BASIC-XER output (slow and dripping peers send this form)
    if(handwritten_xer && sy == SY_XER) { if(!pdu_by_name(b.type)) return false; S.assign(x.begin(), x.end()); return true; }
    void *st = nullptr;
    DecResult r = decode_call(td, SY_XER, &st, (const uint8_t *)x.data(), x.size());
    bool ok = !r.aborted && r.code == RC_OK && st;
    if(ok) { EncResult e = encode_to_vec(td, st, sy); ok = !e.aborted && e.encoded >= 0; if(ok) S = e.out; }
    if(st && !r.aborted) free_struct(td, st);
    sim_alloc_free_all_live();
    return ok;
}
// A flat input (one long string, one long run of segments or fragments, at most 40 levels of nesting) handed over in ONE call, decoded
// on the painted 8 MiB stack: the stack the decoder uses must not grow with the length of the input (otherwise a long enough input
// exhausts any stack, and no stack limit stops it, because the guard is only consulted on the way into nested types).
// Judged: exhaustion (the process dies, exit 79) and a high-water mark beyond FLAT_STACK_MAX (256 KiB: 8x the default limit of 30000; the pinned tree stays under the 64 KiB resolution of the paint).
static const size_t FLAT_STACK_MAX = 256u << 10;
struct FlatJob { asn_TYPE_descriptor_t *td; Syntax sy; const Bytes *S; const std::vector<Op> *ops; bool enforce; HeapOutcome *ho; long A; Verdict v; };
static void *flat_thread(void *arg) {
    FlatJob *j = (FlatJob *)arg;
    sim_install_altstack();
    j->v = do_heap(j->td, j->sy, *j->S, *j->ops, j->enforce, *j->ho, j->A, HEAP_B);
    return nullptr;
}

static Verdict do_bulk(const Bulk &b, size_t k, Syntax sy, size_t chunk, HeapOutcome &ho, size_t *n_out, bool enforce, bool *made, size_t *hw_out = nullptr) {
    Bytes S; Verdict v;
    *made = bulk_input(b, k, sy, S, chunk != 0 && chunk != 16384);
    if(!*made) return v;
    if(n_out) *n_out = S.size();
    std::vector<Op> ops;
    // chunk 1021 is the slow peer: one delivery of 1021 bytes, then 1022 at a time - every delivery ends at an odd offset, i.e. inside a
    // two-character unit of text, call after call (a decoder that re-reads what it could not finish shows super-linear growth here)
    // chunk 1 / 2 is the dripping peer: a first delivery of 1 / 2 bytes, then 2 at a time (thousands of calls, each ending in the same
    // phase of a two-character unit); used on small inputs only
    if(chunk && sy != SY_UPER) { size_t left = S.size(), step = chunk; while(left > step) { ops.push_back(mkop("deliver", {L((long)step)})); left -= step; if(chunk == 1021) step = 1022; if(chunk <= 2) step = 2; } }
    ops.push_back(mkop("deliver", {"rest"}));
    // segmented strings: the pinned tree holds at most 0.65 bytes per input byte there, so 8 (instead of 24) is already > 4x the measurement
    if(chunk == 0) {
        FlatJob job{pdu_by_name(b.decode_as), sy, &S, &ops, enforce, &ho, b.heap_a ? b.heap_a : HEAP_A_BULK, Verdict()};
        size_t hw = run_on_stack(flat_thread, &job);
        if(hw_out) *hw_out = hw;
        v = job.v;
        EV.ev("bulk whole %s %s n=%zu stack high-water %zu", b.name, syntax_name(sy), S.size(), hw);
        if(!v.violated && enforce && hw > FLAT_STACK_MAX) {
            v.violated = true; v.cls = "stack-growth"; v.site = std::string("bulk:") + b.name + "/" + syntax_name(sy);
            v.detail = "decoding " + L((long)S.size()) + " bytes of flat input in one call used " + L((long)hw) + " bytes of stack (allowed " + L((long)FLAT_STACK_MAX) + ")";
        }
    } else
    v = do_heap(pdu_by_name(b.decode_as), sy, S, ops, enforce, ho, b.heap_a ? b.heap_a : HEAP_A_BULK, HEAP_B);
    if(v.violated && v.cls == "heap-bomb") v.site = std::string("bulk:") + b.name + "/" + syntax_name(sy);
    return v;
}

static std::string ops_str(const std::vector<Op> &ops) { std::string s; for(auto &o : ops) s += o.str(); return s; }

static const size_t DEPTHS[] = {10, 100, 1000, 10000, 100000};
static const long LIMITS[] = {-1 /* default (ctx NULL) */, 1000, 30000, 1000000, 16};

static void c15_run(uint64_t seed, uint64_t index, bool thorough) {
    bool calibrate = getenv("SIM_C15_CALIBRATE") != nullptr;
    Rng r = stream(seed, "faults"), rs = stream(seed, "schedule");
    // ---- stack runs: enumerate templates x depths x limits over the first indices, then sample chunked deliveries
    size_t grid = g_valid.size() * 5 * 5;
    if(!calibrate && !g_valid.empty() && (index < grid || index % 4 == 0)) {
        size_t gi = index < grid ? (size_t)index : (size_t)r.below(grid);
        const Tmpl &t = *g_valid[gi / 25];
        size_t depth = DEPTHS[(gi / 5) % 5];
        long limit = LIMITS[gi % 5];
        int place = (int)((gi / 5 + gi) % 3);
        size_t chunk = index < grid ? 0 : (size_t)(1 + rs.below(8192));
        Plan head; head.set("property", "C15"); head.set("program", SIM_PROGRAM); head.set("mode", "stack"); head.set("template", t.name);
        head.set("depth", L((long)depth)); head.set("limit", limit < 0 ? "default" : L(limit)); head.set("chunk", L((long)chunk)); head.set("ctx", place == 1 ? "static" : place == 2 ? "heap" : "stack");
        status_head(head.head_str()); status_ops("op deliver rest\n");
        size_t hw = 0; int code = 0;
        Verdict v = do_stack(t, depth, limit, chunk, &hw, &code, place);
        G.add("c15.decodes"); G.add("c15.stack_runs"); G.add(std::string("c15.stack.rc.") + rc_name(code));
        G.max("c15.stack_high_water_bytes", hw);
        if(depth >= 10000) G.add("c15.fired.deep_nesting");
        long eff = limit < 0 ? 30000 : limit;
        if(code == RC_OK && hw > (size_t)eff * 4 + 65536) G.add("c15.note.decoded_ok_far_beyond_stack_limit");
        G.seen("c15.stack_cases", hash_str(head.head_str()));
        if(v.violated) report_violation("C15", mk_sig(v), v.detail, head.head_str() + "op deliver rest\n");
        if(G.samples.size() < 2) G.samples.push_back(head.head_str() + "op deliver rest\n");
        return;
    }
    // ---- bulk runs: enumerate templates x sizes x syntaxes over the indices right after the stack grid, then sample
    size_t bgrid = (size_t)NBULK * 3 * 4 * 3;
    if(index >= grid && (index < grid + bgrid || index % 16 == 2)) {
        size_t bi = index < grid + bgrid ? (size_t)(index - grid) : (size_t)r.below(bgrid);
        static const Syntax bsy[] = {SY_DER, SY_OER, SY_UPER, SY_XER};
        unsigned delivery = (unsigned)(bi % 3); bi /= 3;          // 0: 16K deliveries, 1: the slow peer, 2: everything in one call (stack measured)
        bool small_chunks = delivery == 1;
        const Bulk &b = BULKS[bi / 12]; size_t k = BULK_SIZES[(bi / 4) % 3]; Syntax sy = bsy[bi % 4];
        if(small_chunks && k > 140000) k = 140000;            // a slow peer: 1021 bytes per delivery - a prime, so deliveries end in every phase of the 2- and 8-character text units (quadratic re-reading shows here)
        size_t chunk = index < grid + bgrid ? (small_chunks ? 1021 : delivery == 2 ? 0 : 16384) : delivery == 2 ? 0 : (size_t)(1 + rs.below(65536));
        Plan head; head.set("property", "C15"); head.set("program", SIM_PROGRAM); head.set("mode", "bulk"); head.set("template", b.name);
        head.set("size", L((long)k)); head.set("syntax", syntax_name(sy)); head.set("chunk", L((long)chunk)); head.set("budget", "A=" + L(HEAP_A_BULK) + " B=" + L(HEAP_B));
        status_head(head.head_str()); status_ops("op deliver rest\n");
        HeapOutcome ho; size_t n = 0; bool made = false; size_t hw = 0;
        Verdict v = do_bulk(b, k, sy, chunk, ho, &n, !calibrate, &made, &hw);
        if(!made) { G.add("c15.skip.bulk_input_not_made"); return; }
        if(chunk == 0) { G.add("c15.fired.bulk_in_one_call"); G.max("c15.flat_stack_high_water_bytes", hw); if(calibrate) G.max(std::string("c15.cal.flat_stack.") + b.name + "." + syntax_name(sy), hw); }
        G.add("c15.decodes"); G.add("c15.bulk_runs"); G.add(std::string("c15.bulk.rc.") + rc_name(ho.code)); G.add("c15.fired.bulk_payload");
        G.max("c15.bulk_max_input_bytes", n); G.seen("c15.heap_cases", hash_str(head.head_str()));
        if(calibrate && n) G.max(std::string("c15.cal.bulk_ratio_x100.") + b.name + "." + syntax_name(sy), (uint64_t)(100.0 * (double)ho.peak / (double)n));
        if(v.violated) report_violation("C15", mk_sig(v), v.detail, head.head_str() + "op deliver rest\n");
        return;
    }
    // ---- drip runs: every XER bulk template at 6000 units, delivered 2 bytes at a time in both phases
    size_t dgrid = (size_t)NBULK * 2;
    if(index >= grid + bgrid && index < grid + bgrid + dgrid) {
        size_t di = (size_t)(index - grid - bgrid);
        const Bulk &b = BULKS[di / 2]; size_t chunk = 1 + (di & 1);
        Plan head; head.set("property", "C15"); head.set("program", SIM_PROGRAM); head.set("mode", "bulk"); head.set("template", b.name);
        head.set("size", "6000"); head.set("syntax", "XER"); head.set("chunk", L((long)chunk)); head.set("budget", "A=" + L(HEAP_A_BULK) + " B=" + L(HEAP_B));
        status_head(head.head_str()); status_ops("op deliver rest\n");
        HeapOutcome ho; size_t n = 0; bool made = false;
        Verdict v = do_bulk(b, 6000, SY_XER, chunk, ho, &n, !calibrate, &made);
        if(!made) { G.add("c15.skip.bulk_input_not_made"); return; }
        G.add("c15.decodes"); G.add("c15.bulk_runs"); G.add("c15.drip_runs"); G.add(std::string("c15.bulk.rc.") + rc_name(ho.code)); G.add("c15.fired.dripping_peer");
        G.seen("c15.heap_cases", hash_str(head.head_str()));
        if(v.violated) report_violation("C15", mk_sig(v), v.detail, head.head_str() + "op deliver rest\n");
        return;
    }
    // ---- heap runs
    ValueChoice vc = choose_value(seed, 300);
    if(!vc.st) { G.add("c15.skip.novalue"); return; }
    asn_TYPE_descriptor_t *td = vc.td;
    static const Syntax syns[] = {SY_DER, SY_OER, SY_UPER, SY_XER};
    std::map<int, Bytes> enc;
    for(Syntax sy : syns) { EncResult e = encode_to_vec(td, vc.st, sy); if(!e.aborted && e.encoded >= 0 && e.out.size() <= 32768) enc[sy] = e.out; }
    free_struct(td, vc.st);
    sim_alloc_free_all_live();
    unsigned variants = calibrate ? 1 : (thorough ? 24 : 8);
    for(auto &kv : enc) {
        Syntax sy = (Syntax)kv.first;
        for(unsigned q = 0; q < variants; q++) {
            std::string how = "valid";
            Bytes S = calibrate ? kv.second : hostile(kv.second, sy, r, how);
            std::vector<Op> ops;
            unsigned nch = calibrate ? 0 : (unsigned)rs.below(3);
            size_t left = S.size();
            for(unsigned c = 0; c < nch && left > 1; c++) { size_t s = 1 + rs.below(left - 1); ops.push_back(mkop("deliver", {L((long)s)})); left -= s; }
            ops.push_back(mkop("deliver", {"rest"}));
            Plan head; head.set("property", "C15"); head.set("program", SIM_PROGRAM); head.set("mode", "heap"); head.set("type", td->name);
            head.set("syntax", syntax_name(sy)); head.set("hostile", how); head.set("budget", "A=" + L(HEAP_A) + " B=" + L(HEAP_B)); head.set("stream", to_hex(S));
            std::string hs = head.head_str(), os = ops_str(ops);
            status_head(hs); status_ops(os);
            HeapOutcome ho;
            Verdict v = do_heap(td, sy, S, ops, !calibrate, ho);
            G.add("c15.decodes"); G.add("c15.heap_runs"); G.add("c15.fired." + how.substr(0, how.find(',')));
            G.add(std::string("c15.heap.rc.") + rc_name(ho.code));
            G.seen("c15.heap_cases", hash_str(hs));
            G.max("c15.heap_peak_bytes", ho.peak);
            if(calibrate) {
                size_t n = S.size();
                if(n <= 64) G.max("c15.cal.max_peak_n_le_64", ho.peak);
                if(ho.peak > 65536 || n > 64) G.max("c15.cal.max_ratio_x100", (uint64_t)(100.0 * (double)ho.peak / (double)(n ? n : 1)));
            }
            if(v.violated) report_violation("C15", mk_sig(v), v.detail, hs + os);
            if(G.samples.size() < 4 && q == 1) G.samples.push_back(hs + os);
        }
    }
}

static ReplayResult c15_replay(const Plan &p) {
    ReplayResult rr;
    if(p.get("mode") == "stack") {
        const Tmpl *t = nullptr;
        for(auto *x : g_valid) if(p.get("template") == x->name) t = x;
        if(!t) { rr.skipped = true; rr.detail = "template not valid for this program"; return rr; }
        std::string lim = p.get("limit");
        Verdict v = do_stack(*t, (size_t)p.getl("depth", 10), lim == "default" ? -1 : strtol(lim.c_str(), 0, 10), (size_t)p.getl("chunk", 0), nullptr, nullptr,
                             p.get("ctx") == "static" ? 1 : p.get("ctx") == "heap" ? 2 : 0);
        rr.violated = v.violated; if(v.violated) { rr.sig = mk_sig(v); rr.detail = v.detail; }
        return rr;
    }
    if(p.get("mode") == "bulk") {
        const Bulk *b = nullptr; Syntax bsy;
        for(int i = 0; i < NBULK; i++) if(p.get("template") == BULKS[i].name) b = &BULKS[i];
        if(!b || !syntax_from_name(p.get("syntax"), bsy)) { rr.skipped = true; rr.detail = "unknown bulk template"; return rr; }
        HeapOutcome ho; bool made = false;
        Verdict v = do_bulk(*b, (size_t)p.getl("size", 40000), bsy, (size_t)p.getl("chunk", 0), ho, nullptr, true, &made);
        if(!made) { rr.skipped = true; rr.detail = "bulk input could not be built for this program"; return rr; }
        rr.violated = v.violated; if(v.violated) { rr.sig = mk_sig(v); rr.detail = v.detail; }
        return rr;
    }
    asn_TYPE_descriptor_t *td = pdu_by_name(p.get("type"));
    Syntax sy; Bytes S;
    if(!td || !syntax_from_name(p.get("syntax"), sy) || !from_hex(p.get("stream"), S)) { rr.skipped = true; rr.detail = "unusable plan"; return rr; }
    HeapOutcome ho;
    Verdict v = do_heap(td, sy, S, p.ops, true, ho);
    rr.violated = v.violated; if(v.violated) { rr.sig = mk_sig(v); rr.detail = v.detail; }
    return rr;
}

} // namespace

std::string c15_template_report() {
    std::string s = "valid:";
    for(auto *t : g_valid) s += std::string(" ") + t->name;
    s += " | rejected-at-depth-3:";
    for(auto &n : g_invalid) s += " " + n;
    return s;
}

Engine engine_c15 = {"C15", c15_run, c15_replay, c15_init};
