// Values with one big payload, built from XER text: shared by the C15 bulk runs and by the value chooser of the other engines.
#ifndef SIM_BULK_H
#define SIM_BULK_H
#include <string>
#include <vector>
#include <cstdint>
// xer: XER text of the value (encoded by the library in every syntax); raw: bytes written by hand for ONE syntax (raw_syntax is an
// int so that this header does not depend on core.h: 1 = BER, 4 = XER), for inputs the library's encoders never produce
struct Bulk { const char *name; const char *type; const char *decode_as; std::string (*xer)(size_t k); std::vector<uint8_t> (*raw)(size_t k); int raw_syntax; long heap_a = 0; /* bytes of heap per input byte allowed for this template; 0 = the default of the bulk runs */ };
static inline std::vector<uint8_t> bulk_segments(uint8_t outer, uint8_t inner, size_t k, bool empty) {     // constructed string of k tiny primitive segments
    std::vector<uint8_t> o; o.reserve(3 * k + 8); o.push_back(outer); o.push_back(0x80);
    for(size_t i = 0; i < k; i++) { o.push_back(inner); if(empty && inner == 0x04) o.push_back(0); else if(inner == 0x03) { o.push_back(1); o.push_back(0); } else { o.push_back(1); o.push_back(0x41); } }
    o.push_back(0); o.push_back(0); return o;
}
static inline std::string hexrun(size_t k) { return std::string(2 * k, 'A'); }
// XER text of a Sim1.Prims value with chosen texts for the INTEGER, REAL and OBJECT IDENTIFIER members and a filler between two members
static inline std::vector<uint8_t> prims_xer(const std::string &i, const std::string &r, const std::string &oid, const std::string &between) {
    std::string x = "<Prims><b><true/></b><i>" + i + "</i><i8>1</i8><ineg>-1</ineg><i32>0</i32><iu32>0</iu32><isemi>5</isemi><iext>16</iext><e><blue/></e>" + between + "<r>" + r
                    + "</r><n/><bs>1</bs><bsf>111111111111</bsf><bsr>10101</bsr><os>00</os><osf>00000000</osf><osr>01</osr><oid>" + oid + "</oid><roid>0.0</roid></Prims>";
    return std::vector<uint8_t>(x.begin(), x.end());
}
static inline std::string oid_run(size_t k) { std::string o = "1.2"; for(size_t q = 0; q < k / 2; q++) o += ".3"; return o; }
static const Bulk BULKS[] = {
    {"bigstr", "BigStr", "BigStr", [](size_t k) { return "<BigStr>" + hexrun(k) + "</BigStr>"; }, nullptr, 0},
    {"bigbits", "BigBits", "BigBits", [](size_t k) { return "<BigBits>" + std::string(8 * k, '1') + "</BigBits>"; }, nullptr, 0},
    {"bigutf", "BigUtf", "BigUtf", [](size_t k) { return "<BigUtf>" + std::string(k, 'x') + "</BigUtf>"; }, nullptr, 0},
    {"unilong", "UniLong", "UniLong", [](size_t k) { return "<UniLong>" + std::string(k / 4, 'x') + "</UniLong>"; }, nullptr, 0},
    {"bmplong", "BmpLong", "BmpLong", [](size_t k) { return "<BmpLong>" + std::string(k / 2, 'x') + "</BmpLong>"; }, nullptr, 0},
    {"blob.root", "Blob", "Blob", [](size_t k) { return "<Blob><a>" + hexrun(k) + "</a><c></c></Blob>"; }, nullptr, 0},
    {"blob.addition", "Blob", "Blob", [](size_t k) { return "<Blob><a>00</a><c></c><d>" + std::string(k, 'x') + "</d></Blob>"; }, nullptr, 0},
    {"blob.addition-skipped", "Blob", "BlobV1", [](size_t k) { return "<Blob><a>00</a><c></c><d>" + std::string(k - k % 3, 'x') + "</d></Blob>"; }, nullptr, 0},
    {"extch.addition", "ExtCh", "ExtCh", [](size_t k) { return "<ExtCh><b>" + hexrun(k) + "</b></ExtCh>"; }, nullptr, 0},
    {"octrange", "OctRange", "OctRange", [](size_t k) { return "<OctRange>" + hexrun(k < 70000 ? k : 70000) + "</OctRange>"; }, nullptr, 0},
    // recursion through an extension addition (an open type in OER / PER): 40 levels around the payload
    {"recext.deep-payload", "RecExt", "RecExt", [](size_t k) { std::string o = "<RecExt>"; for(int i = 0; i < 40; i++) o += "<v>00</v><next>"; o += "<v>" + hexrun(k) + "</v>"; for(int i = 0; i < 40; i++) o += "</next>"; return o + "</RecExt>"; }, nullptr, 0},
    // BER only: constructed strings made of very many tiny segments (the decoder's per-segment bookkeeping)
    {"bigstr.ber-empty-segments", "BigStr", "BigStr", nullptr, [](size_t k) { return bulk_segments(0x24, 0x04, k / 2, true); }, 1, 8},
    {"bigstr.ber-tiny-segments", "BigStr", "BigStr", nullptr, [](size_t k) { return bulk_segments(0x24, 0x04, k / 3, false); }, 1, 8},
    {"bigbits.ber-tiny-segments", "BigBits", "BigBits", nullptr, [](size_t k) { return bulk_segments(0x23, 0x03, k / 3, false); }, 1, 8},
    // Sim3: payload inside an information-object-class open type (a decoder that is not restartable re-reads it on every delivery)
    // a SET OF with exactly 1..4 x 16384 one-octet elements behind a label of k % 64 octets: the last fragment is full, the list ends
    // with a zero-length fragment, and the label moves both across the alignments of the encoders' staging buffers
    {"batch.exact-fragments", "Batch", "Batch", [](size_t k) { std::string o = "<Batch><label>" + hexrun(k % 64) + "</label><samples>"; size_t cnt = 16384 * (1 + (k / 64) % 4);
                                                            o.reserve(o.size() + cnt * 22 + 32); for(size_t q = 0; q < cnt; q++) o += "<INTEGER>7</INTEGER>"; return o + "</samples></Batch>"; }, nullptr, 0},
    // XER only (raw_syntax 4), text the library's encoder never writes: long bodies of primitive types, long runs between members
    {"prims.real-trailing-blanks", "Prims", "Prims", nullptr, [](size_t k) { return prims_xer("7", "0.5" + std::string(k, ' '), "1.2.3", ""); }, 4},
    {"prims.real-long-digits", "Prims", "Prims", nullptr, [](size_t k) { return prims_xer("7", "0." + std::string(k, '3'), "1.2.3", ""); }, 4},
    {"prims.integer-leading-zeros", "Prims", "Prims", nullptr, [](size_t k) { return prims_xer(std::string(k, '0') + "7", "0.5", "1.2.3", ""); }, 4},
    {"prims.oid-many-arcs", "Prims", "Prims", nullptr, [](size_t k) { return prims_xer("7", "0.5", oid_run(k), ""); }, 4},
    {"prims.blanks-between", "Prims", "Prims", nullptr, [](size_t k) { return prims_xer("7", "0.5", "1.2.3", std::string(k, ' ')); }, 4},
    {"prims.comment-between", "Prims", "Prims", nullptr, [](size_t k) { return prims_xer("7", "0.5", "1.2.3", "<!--" + std::string(k, 'x') + "-->"); }, 4},
    {"frame.str", "Frame", "Frame", [](size_t k) { return "<Frame><ident>2</ident><value><Str>" + std::string(k, 'x') + "</Str></value></Frame>"; }, nullptr, 0},
};
static const int NBULK = sizeof(BULKS) / sizeof(BULKS[0]);
#endif
