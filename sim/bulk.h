// Values with one big payload, built from XER text: shared by the C15 bulk runs and by the value chooser of the other engines.
#ifndef SIM_BULK_H
#define SIM_BULK_H
#include <string>
struct Bulk { const char *name; const char *type; const char *decode_as; std::string (*xer)(size_t k); };
static inline std::string hexrun(size_t k) { return std::string(2 * k, 'A'); }
static const Bulk BULKS[] = {
    {"bigstr", "BigStr", "BigStr", [](size_t k) { return "<BigStr>" + hexrun(k) + "</BigStr>"; }},
    {"bigbits", "BigBits", "BigBits", [](size_t k) { return "<BigBits>" + std::string(8 * k, '1') + "</BigBits>"; }},
    {"bigutf", "BigUtf", "BigUtf", [](size_t k) { return "<BigUtf>" + std::string(k, 'x') + "</BigUtf>"; }},
    {"unilong", "UniLong", "UniLong", [](size_t k) { return "<UniLong>" + std::string(k / 4, 'x') + "</UniLong>"; }},
    {"bmplong", "BmpLong", "BmpLong", [](size_t k) { return "<BmpLong>" + std::string(k / 2, 'x') + "</BmpLong>"; }},
    {"blob.root", "Blob", "Blob", [](size_t k) { return "<Blob><a>" + hexrun(k) + "</a><c></c></Blob>"; }},
    {"blob.addition", "Blob", "Blob", [](size_t k) { return "<Blob><a>00</a><c></c><d>" + std::string(k, 'x') + "</d></Blob>"; }},
    {"blob.addition-skipped", "Blob", "BlobV1", [](size_t k) { return "<Blob><a>00</a><c></c><d>" + std::string(k - k % 3, 'x') + "</d></Blob>"; }},
    {"extch.addition", "ExtCh", "ExtCh", [](size_t k) { return "<ExtCh><b>" + hexrun(k) + "</b></ExtCh>"; }},
    {"octrange", "OctRange", "OctRange", [](size_t k) { return "<OctRange>" + hexrun(k < 70000 ? k : 70000) + "</OctRange>"; }},
    // Sim3: payload inside an information-object-class open type (a decoder that is not restartable re-reads it on every delivery)
    {"frame.str", "Frame", "Frame", [](size_t k) { return "<Frame><ident>2</ident><value><Str>" + std::string(k, 'x') + "</Str></value></Frame>"; }},
};
static const int NBULK = sizeof(BULKS) / sizeof(BULKS[0]);
#endif
