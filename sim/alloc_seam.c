/*
 * Allocator seam: --wrap=malloc,calloc,realloc,free.
 * Library allocations (sim_in_lib > 0) go through a ledger and a fault plan;
 * harness allocations pass straight through.
 */
#include "sim_seams.h"
#include <stdlib.h>
#include <string.h>
#include <stdio.h>
#include <unistd.h>

void *__real_malloc(size_t);
void *__real_calloc(size_t, size_t);
void *__real_realloc(void *, size_t);
void __real_free(void *);

int sim_in_lib;

struct ent { void *p; size_t sz; int op; uintptr_t ra; };
static struct ent *tab;
static size_t tab_cap, tab_used, tab_tomb;
#define TOMB ((void *)1)

static size_t live_count, live_bytes, peak_bytes;
static long op_count, fail_k = -1, fail_k2 = -1, bad_free, total_moves, budget = -1, budget_refusals;
static size_t budget_worst;
static int fail_sticky, fired, cur_op, always_move;
static int fill_on; static unsigned char fill_byte;
static uintptr_t fault_site;
extern char __executable_start;

static size_t hashp(const void *p) {
    uint64_t x = (uint64_t)(uintptr_t)p;
    x ^= x >> 33; x *= 0xff51afd7ed558ccdULL; x ^= x >> 33;
    return (size_t)x;
}

static void tab_grow(void) {
    size_t ncap = tab_cap ? tab_cap * 2 : 1024;
    if(tab_tomb > tab_used) ncap = tab_cap; /* just rehash */
    struct ent *nt = __real_calloc(ncap, sizeof(*nt));
    if(!nt) { const char m[] = "sim: ledger OOM\n"; if(write(2, m, sizeof(m) - 1)) {} _exit(70); }
    for(size_t i = 0; i < tab_cap; i++) {
        if(tab[i].p && tab[i].p != TOMB) {
            size_t h = hashp(tab[i].p) & (ncap - 1);
            while(nt[h].p) h = (h + 1) & (ncap - 1);
            nt[h] = tab[i];
        }
    }
    __real_free(tab);
    tab = nt; tab_cap = ncap; tab_tomb = 0;
}

static struct ent *tab_find(const void *p) {
    if(!tab_cap || !p) return 0;
    size_t h = hashp(p) & (tab_cap - 1);
    while(tab[h].p) {
        if(tab[h].p == p) return &tab[h];
        h = (h + 1) & (tab_cap - 1);
    }
    return 0;
}

static uintptr_t cur_ra;
static void tab_add(void *p, size_t sz) {
    if((tab_used + tab_tomb + 1) * 2 > tab_cap) tab_grow();
    size_t h = hashp(p) & (tab_cap - 1);
    while(tab[h].p && tab[h].p != TOMB) h = (h + 1) & (tab_cap - 1);
    if(tab[h].p == TOMB) tab_tomb--;
    tab[h].p = p; tab[h].sz = sz; tab[h].op = cur_op; tab[h].ra = cur_ra;
    tab_used++;
    live_count++; live_bytes += sz;
    if(live_bytes > peak_bytes) peak_bytes = live_bytes;
}

static int tab_del(const void *p) {
    struct ent *e = tab_find(p);
    if(!e) return 0;
    live_count--; live_bytes -= e->sz;
    e->p = TOMB; tab_used--; tab_tomb++;
    return 1;
}

/* Decide whether this library request is refused. */
static int refuse(size_t req, void *ra) {
    long k = op_count++;
    int f = 0;
    if(fail_k >= 0 && (k == fail_k || (fail_sticky && k > fail_k))) f = 1;
    if(fail_k2 >= 0 && k == fail_k2) f = 1;
    if(!f && budget >= 0 && (long)(live_bytes + req) > budget) {
        budget_refusals++;
        if(req > budget_worst) budget_worst = req;
        f = 1;
    }
    if(f) {
        if(!fired) fault_site = (uintptr_t)ra - (uintptr_t)&__executable_start;
        fired++;
    }
    return f;
}

void *__wrap_malloc(size_t sz) {
    if(!sim_in_lib) return __real_malloc(sz);
    if(refuse(sz, __builtin_return_address(0))) return 0;
    void *p = __real_malloc(sz);
    cur_ra = (uintptr_t)__builtin_return_address(0) - (uintptr_t)&__executable_start;
    if(p) { tab_add(p, sz); if(fill_on) memset(p, fill_byte, sz); }
    return p;
}

void *__wrap_calloc(size_t n, size_t sz) {
    if(!sim_in_lib) return __real_calloc(n, sz);
    size_t tot;
    if(__builtin_mul_overflow(n, sz, &tot)) { op_count++; return 0; }
    if(refuse(tot, __builtin_return_address(0))) return 0;
    void *p = __real_calloc(n, sz);
    cur_ra = (uintptr_t)__builtin_return_address(0) - (uintptr_t)&__executable_start;
    if(p) tab_add(p, tot);
    return p;
}

void *__wrap_realloc(void *old, size_t sz) {
    if(!sim_in_lib) {
        if(old && tab_find(old)) {      /* harness grows a library block: keep ledger coherent */
            struct ent *e = tab_find(old);
            int op = e->op;
            void *np = __real_realloc(old, sz);
            if(np) { tab_del(old); int save = cur_op; cur_op = op; tab_add(np, sz); cur_op = save; }
            return np;
        }
        return __real_realloc(old, sz);
    }
    struct ent *e = old ? tab_find(old) : 0;
    cur_ra = (uintptr_t)__builtin_return_address(0) - (uintptr_t)&__executable_start;
    if(old && !e) { bad_free++; return 0; }
    /* budget mode counts the net growth: the block being resized is already part of the live bytes */
    if(refuse(e ? (sz > e->sz ? sz - e->sz : 0) : sz, __builtin_return_address(0))) return 0;
    if(!old) {
        void *p = __real_malloc(sz);
        if(p) { tab_add(p, sz); if(fill_on) memset(p, fill_byte, sz); }
        return p;
    }
    size_t osz = e->sz;
    int op = e->op;
    void *np;
    if(always_move || fill_on) {
        np = __real_malloc(sz);
        if(!np) return 0;
        if(fill_on) memset(np, fill_byte, sz);
        memcpy(np, old, osz < sz ? osz : sz);
        __real_free(old);
        total_moves++;
    } else {
        np = __real_realloc(old, sz);
        if(!np) return 0;
        if(np != old) total_moves++;
    }
    tab_del(old);
    { int save = cur_op; cur_op = op; tab_add(np, sz); cur_op = save; }
    return np;
}

void __wrap_free(void *p) {
    if(!p) return;
    if(!sim_in_lib) {
        tab_del(p);
        __real_free(p);
        return;
    }
    if(!tab_del(p)) { bad_free++; return; }     /* double / foreign free: record, do not corrupt the heap */
    __real_free(p);
}

void sim_alloc_reset(void) {
    if(tab) memset(tab, 0, tab_cap * sizeof(*tab));
    tab_used = tab_tomb = 0;
    live_count = live_bytes = peak_bytes = 0;
    op_count = 0; fail_k = fail_k2 = -1; fail_sticky = 0; fired = 0; cur_op = 0;
    bad_free = 0; budget = -1; budget_refusals = 0; budget_worst = 0; fault_site = 0;
}
void sim_alloc_begin_op(int op) { cur_op = op; op_count = 0; fail_k = fail_k2 = -1; fail_sticky = 0; fired = 0; fault_site = 0; }
void sim_alloc_fail_at(long k, int sticky) { fail_k = k; fail_sticky = sticky; }
void sim_alloc_fail_at2(long k2) { fail_k2 = k2; }
long sim_alloc_op_count(void) { return op_count; }
int sim_alloc_fault_fired(void) { return fired; }
uintptr_t sim_alloc_fault_site(void) { return fault_site; }
void sim_alloc_always_move(int on) { always_move = on; }
void sim_alloc_fill(int on, unsigned char byte) { fill_on = on; fill_byte = byte; }
void sim_alloc_set_budget(long l) { budget = l; }
long sim_alloc_budget_refusals(void) { return budget_refusals; }
size_t sim_alloc_budget_worst_request(void) { return budget_worst; }
size_t sim_alloc_live_count(void) { return live_count; }
size_t sim_alloc_live_bytes(void) { return live_bytes; }
size_t sim_alloc_peak_bytes(void) { return peak_bytes; }
void sim_alloc_reset_peak(void) { peak_bytes = live_bytes; }
long sim_alloc_bad_free_count(void) { return bad_free; }
long sim_alloc_total_moves(void) { return total_moves; }

void *sim_alloc_tracked(size_t size) {
    void *p = __real_calloc(1, size ? size : 1);
    if(p) tab_add(p, size);
    return p;
}
int sim_alloc_is_live(const void *p) { return tab_find(p) != 0; }
size_t sim_alloc_size_of(const void *p) { struct ent *e = tab_find(p); return e ? e->sz : 0; }

void sim_alloc_foreach_live(void (*cb)(void *, size_t, int, void *), void *key) {
    for(size_t i = 0; i < tab_cap; i++)
        if(tab[i].p && tab[i].p != TOMB) cb(tab[i].p, tab[i].sz, tab[i].op, key);
}
uintptr_t sim_alloc_site_of(const void *p) { struct ent *e = tab_find(p); return e ? e->ra : 0; }

void sim_alloc_free_all_live(void) {
    for(size_t i = 0; i < tab_cap; i++)
        if(tab[i].p && tab[i].p != TOMB) { __real_free(tab[i].p); }
    if(tab) memset(tab, 0, tab_cap * sizeof(*tab));
    tab_used = tab_tomb = 0; live_count = live_bytes = 0;
}
