/* Seams of the thread simulation build (C19): allocator and libc range functions are switch points and
 * feed the race detector; the ledger API of the other engines is stubbed out. */
#define _GNU_SOURCE
#include "sim_seams.h"
#include "tsanlite.h"
#include <stdlib.h>
#include <string.h>
#include <stdio.h>
#include <stdarg.h>
#include <malloc.h>
#include <time.h>

void *__real_malloc(size_t); void *__real_calloc(size_t, size_t); void *__real_realloc(void *, size_t); void __real_free(void *);
int sim_in_lib;

void *__wrap_malloc(size_t n) { tsl_sched_point(); void *p = __real_malloc(n); if(p) tsl_forget(p, n); return p; }
void *__wrap_calloc(size_t a, size_t b) { tsl_sched_point(); void *p = __real_calloc(a, b); if(p) tsl_forget(p, a * b); return p; }
void *__wrap_realloc(void *o, size_t n) {
    tsl_sched_point();
    size_t os = o ? malloc_usable_size(o) : 0;
    if(o) tsl_forget(o, os);
    void *p = __real_realloc(o, n);
    if(p) tsl_forget(p, n);
    return p;
}
void __wrap_free(void *p) { if(!p) return; tsl_forget(p, malloc_usable_size(p)); tsl_sched_point(); __real_free(p); }

/* libc functions imported by the instrumented runtime that read or write through pointer arguments */
void *__real_memcpy(void *, const void *, size_t); void *__real_memmove(void *, const void *, size_t); void *__real_memset(void *, int, size_t);
int __real_memcmp(const void *, const void *, size_t); int __real_bcmp(const void *, const void *, size_t); void *__real_memchr(const void *, int, size_t);
size_t __real_strlen(const char *); double __real_strtod(const char *, char **);
void __real_qsort(void *, size_t, size_t, int (*)(const void *, const void *));
struct tm *__real_gmtime_r(const time_t *, struct tm *); struct tm *__real_localtime_r(const time_t *, struct tm *);
time_t __real_mktime(struct tm *); time_t __real_timegm(struct tm *);
int __real_vsnprintf(char *, size_t, const char *, va_list);

void *__wrap_memcpy(void *d, const void *s, size_t n) { tsl_range(s, n, 0); tsl_range(d, n, 1); return __real_memcpy(d, s, n); }
void *__wrap_memmove(void *d, const void *s, size_t n) { tsl_range(s, n, 0); tsl_range(d, n, 1); return __real_memmove(d, s, n); }
void *__wrap_memset(void *d, int c, size_t n) { tsl_range(d, n, 1); return __real_memset(d, c, n); }
int __wrap_memcmp(const void *a, const void *b, size_t n) { tsl_range(a, n, 0); tsl_range(b, n, 0); return __real_memcmp(a, b, n); }
int __wrap_bcmp(const void *a, const void *b, size_t n) { tsl_range(a, n, 0); tsl_range(b, n, 0); return __real_bcmp(a, b, n); }
void *__wrap_memchr(const void *a, int c, size_t n) { void *r = __real_memchr(a, c, n); tsl_range(a, r ? (size_t)((const char *)r - (const char *)a) + 1 : n, 0); return r; }
size_t __wrap_strlen(const char *s) { size_t n = __real_strlen(s); tsl_range(s, n + 1, 0); return n; }
double __wrap_strtod(const char *s, char **e) { char *ee; double v = __real_strtod(s, &ee); tsl_range(s, (size_t)(ee - s) + 1, 0); if(e) *e = ee; return v; }
void __wrap_qsort(void *b, size_t n, size_t sz, int (*cmp)(const void *, const void *)) { tsl_range(b, n * sz, 0); tsl_range(b, n * sz, 1); __real_qsort(b, n, sz, cmp); }
struct tm *__wrap_gmtime_r(const time_t *t, struct tm *r) { tsl_range(t, sizeof *t, 0); tsl_range(r, sizeof *r, 1); return __real_gmtime_r(t, r); }
struct tm *__wrap_localtime_r(const time_t *t, struct tm *r) { tsl_range(t, sizeof *t, 0); tsl_range(r, sizeof *r, 1); return __real_localtime_r(t, r); }
time_t __wrap_mktime(struct tm *t) { tsl_range(t, sizeof *t, 0); tsl_range(t, sizeof *t, 1); return __real_mktime(t); }
time_t __wrap_timegm(struct tm *t) { tsl_range(t, sizeof *t, 0); tsl_range(t, sizeof *t, 1); return __real_timegm(t); }
int __wrap_vsnprintf(char *b, size_t n, const char *f, va_list ap) { int r = __real_vsnprintf(b, n, f, ap); if(b && n) tsl_range(b, (size_t)(r < 0 ? 0 : ((size_t)r < n ? (size_t)r + 1 : n)), 1); return r; }
int __wrap_snprintf(char *b, size_t n, const char *f, ...) { va_list ap; va_start(ap, f); int r = __real_vsnprintf(b, n, f, ap); va_end(ap); if(b && n) tsl_range(b, (size_t)(r < 0 ? 0 : ((size_t)r < n ? (size_t)r + 1 : n)), 1); return r; }

/* ledger API used by shared harness code: not applicable in this build */
void sim_alloc_reset(void) {} void sim_alloc_begin_op(int o) { (void)o; } void sim_alloc_fail_at(long k, int s) { (void)k; (void)s; } void sim_alloc_fail_at2(long k) { (void)k; }
long sim_alloc_op_count(void) { return 0; } int sim_alloc_fault_fired(void) { return 0; } uintptr_t sim_alloc_fault_site(void) { return 0; }
void sim_alloc_always_move(int on) { (void)on; } void sim_alloc_fill(int on, unsigned char b) { (void)on; (void)b; } void sim_alloc_set_budget(long l) { (void)l; } long sim_alloc_budget_refusals(void) { return 0; }
size_t sim_alloc_budget_worst_request(void) { return 0; } size_t sim_alloc_live_count(void) { return 0; } size_t sim_alloc_live_bytes(void) { return 0; }
size_t sim_alloc_peak_bytes(void) { return 0; } void sim_alloc_reset_peak(void) {} long sim_alloc_bad_free_count(void) { return 0; } long sim_alloc_total_moves(void) { return 0; }
void *sim_alloc_tracked(size_t n) { return __real_calloc(1, n ? n : 1); } int sim_alloc_is_live(const void *p) { (void)p; return 0; } size_t sim_alloc_size_of(const void *p) { (void)p; return 0; }
void sim_alloc_foreach_live(void (*cb)(void *, size_t, int, void *), void *k) { (void)cb; (void)k; } uintptr_t sim_alloc_site_of(const void *p) { (void)p; return 0; }
void sim_alloc_free_all_live(void) {}

/* libc functions with hidden static state (they are not reentrant): a call is modelled as a write to that state, and the
 * object they return a pointer to is marked written, so that two unordered calls - or one call and another thread's use of
 * the result - are reported as what they are: a data race on library state. */
char libc_static_tm[1], libc_static_strtok[1], libc_static_rand[1], libc_static_timestr[1];
struct tm *__real_gmtime(const time_t *); struct tm *__real_localtime(const time_t *);
char *__real_asctime(const struct tm *); char *__real_ctime(const time_t *); char *__real_strtok(char *, const char *); int __real_rand(void);
struct tm *__wrap_gmtime(const time_t *t) { tsl_range(t, sizeof *t, 0); tsl_range(libc_static_tm, 1, 1); struct tm *r = __real_gmtime(t); if(r) tsl_range(r, sizeof *r, 1); tsl_sched_point(); return r; }
struct tm *__wrap_localtime(const time_t *t) { tsl_range(t, sizeof *t, 0); tsl_range(libc_static_tm, 1, 1); struct tm *r = __real_localtime(t); if(r) tsl_range(r, sizeof *r, 1); tsl_sched_point(); return r; }
char *__wrap_asctime(const struct tm *t) { tsl_range(t, sizeof *t, 0); tsl_range(libc_static_timestr, 1, 1); char *r = __real_asctime(t); tsl_sched_point(); return r; }
char *__wrap_ctime(const time_t *t) { tsl_range(t, sizeof *t, 0); tsl_range(libc_static_timestr, 1, 1); tsl_range(libc_static_tm, 1, 1); char *r = __real_ctime(t); tsl_sched_point(); return r; }
char *__wrap_strtok(char *s, const char *d) { tsl_range(libc_static_strtok, 1, 1); char *r = __real_strtok(s, d); tsl_sched_point(); return r; }
int __wrap_rand(void) { tsl_range(libc_static_rand, 1, 1); int r = __real_rand(); tsl_sched_point(); return r; }
