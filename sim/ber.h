// Our own X.690 TLV reader, BER variant rewriter and XER/TLV boundary finders.
// Written against the standard only; never calls the library under test.
#ifndef SIM_BER_H
#define SIM_BER_H
#include "core.h"

struct Tlv {
    uint8_t cls;            // 0..3
    bool constructed;
    uint64_t tagno;
    size_t hdr;             // octets of identifier + length
    bool indefinite;
    size_t len;             // content length (definite), excluding EOC for indefinite
    size_t total;           // whole TLV incl. EOC
};
// parse one TLV at p[0..n). Returns false if malformed or incomplete.
bool tlv_parse(const uint8_t *p, size_t n, Tlv &t, int depth = 0);
// length of the first complete TLV; 0 if malformed/incomplete
size_t ber_end_of_encoding(const Bytes &b);
// every offset at which a TLV header starts or its contents start (structure-biased cut points)
void ber_boundaries(const Bytes &b, std::vector<size_t> &out);

struct VariantStats { unsigned indefinite = 0, longform = 0, segmented = 0, alternative = 0, reordered = 0, unknown_ext = 0; };
// Contents of the string-typed nodes of the value that was encoded: lets the rewriter segment strings that travel
// under IMPLICIT (non-universal) tags. A primitive TLV whose contents merely coincide with a string's is segmented too;
// the resulting encoding is then invalid and is dropped by the callers' one-shot precondition.
struct BerHints {
    std::set<Bytes> strings, bitstrings;
    std::map<Bytes, std::vector<Bytes>> alt;      // DER contents of a primitive -> alternative BER contents (same abstract value, or a special value)
    std::set<Bytes> unordered;                    // DER contents of SET / SET OF nodes: members may arrive in any order
    std::set<Bytes> extensible;                   // DER contents of extensible SEQUENCE / SET nodes: a newer peer may append unknown additions
};
void ber_collect_hints(const asn_TYPE_descriptor_t *td, void *st, BerHints &h);
// seeded BER variant of a DER encoding; returns false if the input could not be parsed
bool ber_variant(const Bytes &der, Rng &rng, Bytes &out, VariantStats &vs, const BerHints *hints = nullptr);

// XER: strip trailing XML whitespace; cut points around < > &
void xer_strip_trailing_ws(Bytes &b);
void xer_boundaries(const Bytes &b, std::vector<size_t> &out);
// seeded XER variant: whitespace and comments between tags, <x/> for empty elements, character references in text
struct XerVariantStats { unsigned whitespace = 0, comments = 0, emptytags = 0, charrefs = 0, attributes = 0; };
void xer_variant(const Bytes &xer, Rng &rng, Bytes &out, XerVariantStats &vs, bool favour_prolog = false);

#endif
