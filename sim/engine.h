#ifndef SIM_ENGINE_H
#define SIM_ENGINE_H
#include "core.h"

struct ReplayResult {
    bool violated = false;
    bool skipped = false;          // precondition of the plan does not hold on this tree (counted, not judged)
    std::string sig, detail;
};
struct Engine {
    const char *id;
    void (*run)(uint64_t run_seed, uint64_t index, bool thorough);
    ReplayResult (*replay)(const Plan &p);
    void (*init)(bool thorough);
};
extern Engine engine_c05 __attribute__((weak)), engine_c07 __attribute__((weak)), engine_c14 __attribute__((weak)),
    engine_c04 __attribute__((weak)), engine_c15 __attribute__((weak));

// choose a PDU type + value for a run; returns nullptr structure if no value could be made (counted)
struct ValueChoice { asn_TYPE_descriptor_t *td = nullptr; void *st = nullptr; std::string origin; /* = reconstructible spec */ };
// spec: fill:<seed>:<budget> | seedfile:<k> | zero
void *value_from_spec(asn_TYPE_descriptor_t *td, const std::string &spec);
ValueChoice choose_value(uint64_t run_seed, size_t max_budget = 400);
// weights: recursive and open types are visited more often than their share
asn_TYPE_descriptor_t *choose_type(Rng &r);

#endif
