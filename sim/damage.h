#ifndef SIM_DAMAGE_H
#define SIM_DAMAGE_H
#include "core.h"
// op: "damage <kind> node=<i> arg=<x>"; returns false if nothing eligible / not applied
bool apply_damage(asn_TYPE_descriptor_t *td, void *st, const Op &op);
Op random_damage(asn_TYPE_descriptor_t *td, void *st, Rng &r);
#endif
