#include "walker.h"
extern "C" {
#include <constr_SEQUENCE.h>
#include <constr_SET.h>
#include <constr_CHOICE.h>
#include <constr_SET_OF.h>
#include <constr_SEQUENCE_OF.h>
#include <asn_SET_OF.h>
#include <OCTET_STRING.h>
#include <BIT_STRING.h>
#include <INTEGER.h>
#include <NativeReal.h>
}

#define WEAK_OP(n) extern "C" asn_TYPE_operation_t asn_OP_##n __attribute__((weak));
WEAK_OP(SEQUENCE) WEAK_OP(SET) WEAK_OP(CHOICE) WEAK_OP(SET_OF) WEAK_OP(SEQUENCE_OF) WEAK_OP(OPEN_TYPE) WEAK_OP(ANY)
WEAK_OP(OCTET_STRING) WEAK_OP(BIT_STRING) WEAK_OP(INTEGER) WEAK_OP(ENUMERATED) WEAK_OP(REAL)
WEAK_OP(OBJECT_IDENTIFIER) WEAK_OP(RELATIVE_OID) WEAK_OP(NativeInteger) WEAK_OP(NativeEnumerated) WEAK_OP(NativeReal)
WEAK_OP(BOOLEAN) WEAK_OP(NULL)
WEAK_OP(BMPString) WEAK_OP(GeneralString) WEAK_OP(GeneralizedTime) WEAK_OP(GraphicString) WEAK_OP(IA5String)
WEAK_OP(ISO646String) WEAK_OP(NumericString) WEAK_OP(ObjectDescriptor) WEAK_OP(PrintableString) WEAK_OP(T61String)
WEAK_OP(TeletexString) WEAK_OP(UTCTime) WEAK_OP(UTF8String) WEAK_OP(UniversalString) WEAK_OP(VideotexString)
WEAK_OP(VisibleString)

Kind kind_of(const asn_TYPE_descriptor_t *td) {
    const asn_TYPE_operation_t *op = td->op;
#define IS(n) (&asn_OP_##n && op == &asn_OP_##n)
    if(IS(SEQUENCE)) return K_SEQUENCE;
    if(IS(SET)) return K_SET;
    if(IS(CHOICE)) return K_CHOICE;
    if(IS(SET_OF)) return K_SET_OF;
    if(IS(SEQUENCE_OF)) return K_SEQUENCE_OF;
    if(IS(OPEN_TYPE)) return K_OPEN_TYPE;
    if(IS(ANY)) return K_ANY;
    if(IS(OCTET_STRING)) return K_OCTET_STRING;
    if(IS(BIT_STRING)) return K_BIT_STRING;
    if(IS(INTEGER)) return K_INTEGER;
    if(IS(ENUMERATED)) return K_ENUMERATED;
    if(IS(REAL)) return K_REAL;
    if(IS(OBJECT_IDENTIFIER) || IS(RELATIVE_OID)) return K_OID;
    if(IS(NativeInteger)) return K_NATIVE_INTEGER;
    if(IS(NativeEnumerated)) return K_NATIVE_ENUMERATED;
    if(IS(NativeReal)) return K_NATIVE_REAL;
    if(IS(BOOLEAN)) return K_BOOLEAN;
    if(IS(NULL)) return K_NULL;
    if(IS(BMPString) || IS(GeneralString) || IS(GeneralizedTime) || IS(GraphicString) || IS(IA5String)
       || IS(ISO646String) || IS(NumericString) || IS(ObjectDescriptor) || IS(PrintableString) || IS(T61String)
       || IS(TeletexString) || IS(UTCTime) || IS(UTF8String) || IS(UniversalString) || IS(VideotexString)
       || IS(VisibleString)) return K_STRING;
#undef IS
    return K_UNKNOWN;
}

static const char *KN[] = {"SEQUENCE", "SET", "CHOICE", "SET_OF", "SEQUENCE_OF", "OPEN_TYPE", "ANY", "OCTET_STRING",
    "BIT_STRING", "STRING", "INTEGER", "ENUMERATED", "REAL", "OID", "NativeInteger", "NativeEnumerated", "NativeReal",
    "BOOLEAN", "NULL", "UNKNOWN"};
const char *kind_name(Kind k) { return KN[k]; }

static bool reach(const asn_TYPE_descriptor_t *td, std::set<const asn_TYPE_descriptor_t *> &seen,
                  const std::function<bool(const asn_TYPE_descriptor_t *)> &pred) {
    if(!td) return false;
    if(seen.count(td)) return false;
    seen.insert(td);
    if(pred(td)) return true;
    for(unsigned i = 0; i < td->elements_count; i++)
        if(reach(td->elements[i].type, seen, pred)) return true;
    return false;
}
bool fillable(const asn_TYPE_descriptor_t *td) {
    std::set<const asn_TYPE_descriptor_t *> seen;
    return !reach(td, seen, [](const asn_TYPE_descriptor_t *t) { return !t->op->random_fill; });
}
bool reaches_kind(const asn_TYPE_descriptor_t *td, Kind k) {
    std::set<const asn_TYPE_descriptor_t *> seen;
    return reach(td, seen, [k](const asn_TYPE_descriptor_t *t) { return kind_of(t) == k; });
}
bool is_recursive(const asn_TYPE_descriptor_t *td) {
    // td reachable from one of its own members
    for(unsigned i = 0; i < td->elements_count; i++) {
        std::set<const asn_TYPE_descriptor_t *> seen;
        if(reach(td->elements[i].type, seen, [td](const asn_TYPE_descriptor_t *t) { return t == td; })) return true;
    }
    return false;
}

size_t struct_size_of(const asn_TYPE_descriptor_t *td) {
    switch(kind_of(td)) {
    case K_SEQUENCE: return ((const asn_SEQUENCE_specifics_t *)td->specifics)->struct_size;
    case K_SET: return ((const asn_SET_specifics_t *)td->specifics)->struct_size;
    case K_CHOICE: case K_OPEN_TYPE: return ((const asn_CHOICE_specifics_t *)td->specifics)->struct_size;
    case K_SET_OF: case K_SEQUENCE_OF: return ((const asn_SET_OF_specifics_t *)td->specifics)->struct_size;
    case K_ANY: case K_OCTET_STRING: case K_STRING:
        return td->specifics ? ((const asn_OCTET_STRING_specifics_t *)td->specifics)->struct_size : sizeof(OCTET_STRING_t);
    case K_BIT_STRING:
        return td->specifics ? ((const asn_OCTET_STRING_specifics_t *)td->specifics)->struct_size : sizeof(BIT_STRING_t);
    case K_INTEGER: case K_ENUMERATED: case K_REAL: case K_OID: return sizeof(ASN__PRIMITIVE_TYPE_t);
    case K_NATIVE_INTEGER: case K_NATIVE_ENUMERATED: return sizeof(long);
    case K_NATIVE_REAL: {
        const asn_NativeReal_specifics_t *s = (const asn_NativeReal_specifics_t *)td->specifics;
        return s ? s->float_size : sizeof(double);
    }
    case K_BOOLEAN: case K_NULL: return sizeof(int);
    default: return 0;
    }
}

asn_struct_ctx_t *ctx_of(const asn_TYPE_descriptor_t *td, void *st) {
    if(!st) return nullptr;
    unsigned off;
    switch(kind_of(td)) {
    case K_SEQUENCE: off = ((const asn_SEQUENCE_specifics_t *)td->specifics)->ctx_offset; break;
    case K_SET: off = ((const asn_SET_specifics_t *)td->specifics)->ctx_offset; break;
    case K_CHOICE: case K_OPEN_TYPE: off = ((const asn_CHOICE_specifics_t *)td->specifics)->ctx_offset; break;
    case K_SET_OF: case K_SEQUENCE_OF: off = ((const asn_SET_OF_specifics_t *)td->specifics)->ctx_offset; break;
    case K_ANY: case K_OCTET_STRING: case K_STRING:
        off = td->specifics ? ((const asn_OCTET_STRING_specifics_t *)td->specifics)->ctx_offset : offsetof(OCTET_STRING_t, _asn_ctx); break;
    case K_BIT_STRING:
        off = td->specifics ? ((const asn_OCTET_STRING_specifics_t *)td->specifics)->ctx_offset : offsetof(BIT_STRING_t, _asn_ctx); break;
    default: return nullptr;
    }
    return (asn_struct_ctx_t *)((char *)st + off);
}

static unsigned choice_present(const asn_TYPE_descriptor_t *td, const void *st) {
    const asn_CHOICE_specifics_t *sp = (const asn_CHOICE_specifics_t *)td->specifics;
    const void *p = (const char *)st + sp->pres_offset;
    switch(sp->pres_size) {
    case sizeof(int): return *(const unsigned int *)p;
    case sizeof(short): return *(const unsigned short *)p;
    case sizeof(char): return *(const unsigned char *)p;
    default: return 0;
    }
}

static void walk_rec(Node n, const std::function<bool(const Node &)> &visit, int &budget) {
    if(budget-- <= 0) return;
    if(!visit(n)) return;
    const asn_TYPE_descriptor_t *td = n.td;
    void *st = n.ptr;
    auto child = [&](const asn_TYPE_member_t *m, int idx) {
        void *mp = (char *)st + m->memb_offset;
        void **slot = nullptr;
        if(m->flags & ATF_POINTER) { slot = (void **)mp; mp = *slot; }
        if(!mp) return;
        Node c{m->type, mp, slot, td, st, m, idx, n.depth + 1};
        walk_rec(c, visit, budget);
    };
    switch(kind_of(td)) {
    case K_SEQUENCE: case K_SET:
        for(unsigned i = 0; i < td->elements_count; i++) child(&td->elements[i], (int)i);
        break;
    case K_CHOICE: case K_OPEN_TYPE: {
        unsigned pr = choice_present(td, st);
        if(pr >= 1 && pr <= td->elements_count) child(&td->elements[pr - 1], (int)pr - 1);
        break;
    }
    case K_SET_OF: case K_SEQUENCE_OF: {
        asn_anonymous_set_ *l = _A_SET_FROM_VOID(st);
        if(!l->array) break;
        for(int i = 0; i < l->count; i++) {
            if(!l->array[i]) continue;
            Node c{td->elements[0].type, l->array[i], (void **)&l->array[i], td, st, &td->elements[0], i, n.depth + 1};
            walk_rec(c, visit, budget);
        }
        break;
    }
    default: break;
    }
}
void walk(const asn_TYPE_descriptor_t *td, void *st, const std::function<bool(const Node &)> &visit, int max_nodes) {
    if(!st) return;
    Node r{td, st, nullptr, nullptr, nullptr, nullptr, 0, 0};
    int budget = max_nodes;
    walk_rec(r, visit, budget);
}

std::string deepest_in_progress(const asn_TYPE_descriptor_t *td, void *st) {
    // Follow the "last present child" path: in a structure that is being filled in order, that is the
    // member being decoded (or the one just completed). Report the deepest node on it that has a context.
    std::string best;
    const asn_TYPE_descriptor_t *cur_td = td; void *cur = st;
    for(int depth = 0; cur && depth < 64; depth++) {
        asn_struct_ctx_t *c = ctx_of(cur_td, cur);
        if(c) {
            char b[96];
            int stepc = c->step; if(stepc > 3) stepc = 2 + (stepc & 1);   // class: keep micro-phase parity
            snprintf(b, sizeof b, "%s:p%ds%d%s", kind_name(kind_of(cur_td)), c->phase, stepc, c->ptr ? "+ptr" : "");
            best = b;
        }
        const asn_TYPE_descriptor_t *next_td = nullptr; void *next = nullptr;
        switch(kind_of(cur_td)) {
        case K_SEQUENCE: case K_SET:
            for(unsigned i = 0; i < cur_td->elements_count; i++) {
                const asn_TYPE_member_t *m = &cur_td->elements[i];
                void *mp = (char *)cur + m->memb_offset;
                if(m->flags & ATF_POINTER) { mp = *(void **)mp; if(!mp) continue; }
                else if(!kind_constructed(kind_of(m->type)) && !kind_octets(kind_of(m->type))) continue;  // inline scalars carry no state
                else {
                    asn_struct_ctx_t *mc = ctx_of(m->type, mp);
                    if(mc && !mc->phase && !mc->step && !mc->ptr && !mc->context && !mc->left) continue;  // untouched inline member
                }
                next_td = m->type; next = mp;
            }
            break;
        case K_CHOICE: case K_OPEN_TYPE: {
            unsigned pr = choice_present(cur_td, cur);
            if(pr >= 1 && pr <= cur_td->elements_count) {
                const asn_TYPE_member_t *m = &cur_td->elements[pr - 1];
                void *mp = (char *)cur + m->memb_offset;
                if(m->flags & ATF_POINTER) mp = *(void **)mp;
                next_td = m->type; next = mp;
            }
            break;
        }
        case K_SET_OF: case K_SEQUENCE_OF: {
            asn_anonymous_set_ *l = _A_SET_FROM_VOID(cur);
            if(l->array && l->count > 0) { next_td = cur_td->elements[0].type; next = l->array[l->count - 1]; }
            break;
        }
        default: break;
        }
        cur_td = next_td; cur = next;
        if(!cur_td) break;
    }
    return best;
}

bool has_null_buf_string(const asn_TYPE_descriptor_t *td, void *st) {
    bool found = false;
    walk(td, st, [&](const Node &n) {
        Kind k = kind_of(n.td);
        if(kind_octets(k) || kind_primbuf(k)) {
            // both layouts start with {uint8_t *buf; size_t size;}
            if(*(uint8_t **)n.ptr == nullptr) found = true;
            // ... and an empty INTEGER / ENUMERATED / REAL / OID that still owns a scratch buffer (left by a starved XER decode):
            // INTEGER_compare reads buf[0] of the EMPTY operand, i.e. whatever the allocator left there
            else if(kind_primbuf(k) && ((size_t *)n.ptr)[1] == 0) found = true;
            // ... and an empty BIT STRING that still claims unused bits (left by a failed decode): BIT_STRING_compare asserts on it
            else if(k == K_BIT_STRING && ((const BIT_STRING_t *)n.ptr)->size == 0 && ((const BIT_STRING_t *)n.ptr)->bits_unused != 0) found = true;
        }
        return !found;
    }, 5000);
    return found;
}
