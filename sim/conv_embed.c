/*
 * The repository's own stream loop (converter-example.c: data_decode_from_file + DynamicBuffer), compiled
 * in-process so that the C05 simulation can drive it over a simulated file (fopencookie).  DESIGN 5.1 / 3.9.
 * CONV_SRC is the copy asn1c placed into the generated directory, i.e. the current /repo/skeletons version.
 */
#include <stdio.h>
#include <stdlib.h>
#include <assert.h>
void sim_conv_exit(int code) __attribute__((noreturn));
#define main sim_conv_main
#define exit(code) sim_conv_exit(code)
#include CONV_SRC
#undef exit
#undef main

void sim_conv_exit(int code) {
    (void)code;
    __assert_fail("converter-example.c called exit()", "converter-example.c", 0, "data_decode_from_file");
}

void *sim_conv_decode(enum asn_transfer_syntax syntax, asn_TYPE_descriptor_t *td, FILE *f, long bufsize, int first) {
    opt_debug = 0;
    return data_decode_from_file(syntax, td, f, "sim-stream", bufsize, first);
}
