#include "ber.h"
#include "walker.h"
extern "C" {
#include <OCTET_STRING.h>
#include <BIT_STRING.h>
#include <REAL.h>
#include <constr_SEQUENCE.h>
#include <constr_SET.h>
}
#pragma weak asn_REAL2double      // programs without REAL do not link REAL.c


static bool parse_hdr(const uint8_t *p, size_t n, Tlv &t) {
    if(n < 2) return false;
    size_t i = 0;
    t.cls = p[0] >> 6; t.constructed = (p[0] & 0x20) != 0;
    t.tagno = p[0] & 0x1f; i = 1;
    if(t.tagno == 0x1f) {
        t.tagno = 0;
        for(;;) {
            if(i >= n) return false;
            uint8_t o = p[i++];
            if(t.tagno >> 56) return false;
            t.tagno = (t.tagno << 7) | (o & 0x7f);
            if(!(o & 0x80)) break;
        }
    }
    if(i >= n) return false;
    uint8_t l = p[i++];
    t.indefinite = false;
    if(l < 0x80) t.len = l;
    else if(l == 0x80) { if(!t.constructed) return false; t.indefinite = true; t.len = 0; }
    else {
        unsigned k = l & 0x7f;
        if(k == 0x7f) return false;
        uint64_t v = 0;
        for(unsigned j = 0; j < k; j++) {
            if(i >= n) return false;
            if(v >> 48) return false;
            v = (v << 8) | p[i++];
        }
        t.len = (size_t)v;
    }
    t.hdr = i;
    return true;
}

bool tlv_parse(const uint8_t *p, size_t n, Tlv &t, int depth) {
    if(depth > 2000) return false;
    if(!parse_hdr(p, n, t)) return false;
    if(!t.indefinite) {
        if(t.len > n - t.hdr) return false;
        t.total = t.hdr + t.len;
        return true;
    }
    size_t off = t.hdr;
    for(;;) {
        if(n - off < 2) return false;
        if(p[off] == 0 && p[off + 1] == 0) { t.len = off - t.hdr; t.total = off + 2; return true; }
        Tlv c;
        if(!tlv_parse(p + off, n - off, c, depth + 1)) return false;
        off += c.total;
    }
}

size_t ber_end_of_encoding(const Bytes &b) {
    Tlv t;
    if(!tlv_parse(b.data(), b.size(), t)) return 0;
    return t.total;
}

static void bounds_rec(const uint8_t *p, size_t n, size_t base, std::vector<size_t> &out, int depth) {
    size_t off = 0;
    while(off < n && depth < 200) {
        if(n - off >= 2 && p[off] == 0 && p[off + 1] == 0) { out.push_back(base + off); out.push_back(base + off + 1); off += 2; continue; }
        Tlv t;
        if(!tlv_parse(p + off, n - off, t)) return;
        out.push_back(base + off);
        out.push_back(base + off + 1);
        out.push_back(base + off + t.hdr);
        if(t.constructed) bounds_rec(p + off + t.hdr, t.len, base + off + t.hdr, out, depth + 1);
        off += t.total;
    }
}
void ber_boundaries(const Bytes &b, std::vector<size_t> &out) { bounds_rec(b.data(), b.size(), 0, out, 0); }

// ---------------------------------------------------------------- variant rewriter
static void put_tag(Bytes &o, const Tlv &t, bool constructed) {
    uint8_t first = (uint8_t)((t.cls << 6) | (constructed ? 0x20 : 0));
    if(t.tagno < 31) { o.push_back(first | (uint8_t)t.tagno); return; }
    o.push_back(first | 0x1f);
    uint8_t tmp[10]; int k = 0;
    uint64_t v = t.tagno;
    do { tmp[k++] = v & 0x7f; v >>= 7; } while(v);
    while(k--) o.push_back(tmp[k] | (k ? 0x80 : 0));
}
static void put_len(Bytes &o, size_t len, unsigned extra) {
    if(len < 0x80 && !extra) { o.push_back((uint8_t)len); return; }
    uint8_t tmp[8]; int k = 0; size_t v = len;
    do { tmp[k++] = v & 0xff; v >>= 8; } while(v);
    o.push_back((uint8_t)(0x80 | (k + extra)));
    for(unsigned i = 0; i < extra; i++) o.push_back(0);
    while(k--) o.push_back(tmp[k]);
}
static bool is_univ_string(const Tlv &t) {
    if(t.cls != 0) return false;
    return t.tagno == 3 || t.tagno == 4 || t.tagno == 12 || (t.tagno >= 18 && t.tagno <= 30);
}

struct VarCfg { unsigned p_indef, p_long, p_seg; const BerHints *hints; };   // per 16

static void emit_tlv(Bytes &o, const Tlv &t, bool constructed, const Bytes &content, Rng &rng, const VarCfg &cfg,
                     VariantStats &vs, bool allow_indef) {
    put_tag(o, t, constructed);
    if(constructed && allow_indef && rng.below(16) < cfg.p_indef) {
        o.push_back(0x80);
        o.insert(o.end(), content.begin(), content.end());
        o.push_back(0); o.push_back(0);
        vs.indefinite++;
    } else {
        unsigned extra = 0;
        if(rng.below(16) < cfg.p_long) { extra = 1 + (unsigned)rng.below(3); if(content.size() < 0x80 && rng.chance(1, 2)) extra = 0; vs.longform++; }
        if(content.size() < 0x80 && extra == 0 && rng.below(16) < cfg.p_long) { o.push_back(0x81); o.push_back((uint8_t)content.size()); }
        else put_len(o, content.size(), extra);
        o.insert(o.end(), content.begin(), content.end());
    }
}

// segment string contents; bitstring: first octet of src is unused-bits count
static void segment(Bytes &o, const uint8_t *src, size_t n, bool bitstring, int depth, Rng &rng, const VarCfg &cfg, VariantStats &vs) {
    // split payload into 1..3 pieces
    uint8_t unused = 0; const uint8_t *pay = src; size_t pn = n;
    if(bitstring) { if(!n) return; unused = src[0]; pay = src + 1; pn = n - 1; }
    unsigned pieces = 1 + (unsigned)rng.below(3);
    size_t off = 0;
    for(unsigned i = 0; i < pieces; i++) {
        size_t take = (i + 1 == pieces) ? pn - off : (size_t)rng.below(pn - off + 1);
        bool last = (i + 1 == pieces);
        Bytes seg;
        if(bitstring) seg.push_back(last ? unused : 0);
        seg.insert(seg.end(), pay + off, pay + off + take);
        off += take;
        Tlv st; st.cls = 0; st.tagno = bitstring ? 3 : 4;
        if(depth < 2 && rng.chance(1, 4) && !(bitstring && !last && take == 0)) {
            Bytes inner;
            segment(inner, seg.data(), seg.size(), bitstring, depth + 1, rng, cfg, vs);
            emit_tlv(o, st, true, inner, rng, cfg, vs, true);
        } else {
            emit_tlv(o, st, false, seg, rng, cfg, vs, false);
        }
    }
}

static bool rewrite(const uint8_t *p, size_t n, Bytes &o, Rng &rng, const VarCfg &cfg, VariantStats &vs, int depth) {
    size_t off = 0;
    while(off < n) {
        Tlv t;
        if(depth > 500 || !tlv_parse(p + off, n - off, t)) return false;
        const uint8_t *c = p + off + t.hdr;
        if(t.constructed) {
            Bytes inner;
            Bytes orig(c, c + t.len);
            bool shuffled = false;
            if(cfg.hints && cfg.hints->unordered.count(orig) && rng.chance(1, 2)) {
                // SET / SET OF: present the members in another order (X.690 8.11, 8.12: any order in BER)
                std::vector<Bytes> kids; size_t ko = 0; bool okk = true;
                while(ko < t.len) { Tlv k; if(!tlv_parse(c + ko, t.len - ko, k)) { okk = false; break; } kids.push_back(Bytes(c + ko, c + ko + k.total)); ko += k.total; }
                if(okk && kids.size() > 1) {
                    for(size_t i = kids.size() - 1; i > 0; i--) std::swap(kids[i], kids[rng.below(i + 1)]);
                    Bytes re; for(auto &k : kids) re.insert(re.end(), k.begin(), k.end());
                    if(!rewrite(re.data(), re.size(), inner, rng, cfg, vs, depth + 1)) return false;
                    shuffled = true; vs.reordered++;
                }
            }
            if(!shuffled && !rewrite(c, t.len, inner, rng, cfg, vs, depth + 1)) return false;
            if(cfg.hints && cfg.hints->extensible.count(orig) && rng.chance(1, 3)) {
                // a peer built from a newer version of the specification: unknown extension additions at the end
                unsigned nadd = 1 + (unsigned)rng.below(2);
                for(unsigned q = 0; q < nadd; q++) {
                    static const uint8_t u1[] = {0xbf, 0x4d, 0x01, 0x00}, u2[] = {0x9f, 0x4e, 0x03, 0x61, 0x62, 0x63}, u3[] = {0xbf, 0x4f, 0x05, 0x30, 0x03, 0x02, 0x01, 0x07};
                    const uint8_t *u = q == 0 ? (rng.chance(1, 2) ? u1 : u2) : u3; size_t ul = u == u1 ? sizeof u1 : u == u2 ? sizeof u2 : sizeof u3;
                    if(rng.chance(1, 3)) {
                        // the unknown addition itself in indefinite-length form, nested 0..3 deep (skipped through ber_skip_length)
                        unsigned d = (unsigned)rng.below(4);
                        inner.push_back(0xbf); inner.push_back(0x50); inner.push_back(0x80);
                        for(unsigned z = 0; z < d; z++) { inner.push_back(0x30); inner.push_back(0x80); }
                        inner.push_back(0x02); inner.push_back(0x01); inner.push_back(0x07);
                        for(unsigned z = 0; z < d + 1; z++) { inner.push_back(0x00); inner.push_back(0x00); }
                    }
                    else if(u == u1) { inner.push_back(0x9f); inner.push_back(0x4d); inner.push_back(0x01); inner.push_back(0x00); }
                    else inner.insert(inner.end(), u, u + ul);
                }
                vs.unknown_ext++;
            }
            emit_tlv(o, t, true, inner, rng, cfg, vs, true);
        } else if(is_univ_string(t) && rng.below(16) < cfg.p_seg && !(t.tagno == 3 && t.len == 0)) {
            Bytes inner;
            segment(inner, c, t.len, t.tagno == 3, 0, rng, cfg, vs);
            emit_tlv(o, t, true, inner, rng, cfg, vs, true);
            vs.segmented++;
        } else if(t.cls != 0 && cfg.hints && rng.below(16) < cfg.p_seg && t.len > 0
                  && (cfg.hints->strings.count(Bytes(c, c + t.len)) || cfg.hints->bitstrings.count(Bytes(c, c + t.len)))) {
            bool bits = !cfg.hints->strings.count(Bytes(c, c + t.len));
            Bytes inner;
            segment(inner, c, t.len, bits, 0, rng, cfg, vs);
            emit_tlv(o, t, true, inner, rng, cfg, vs, true);
            vs.segmented++;
        } else {
            Bytes content(c, c + t.len);
            if(cfg.hints && !cfg.hints->alt.empty() && rng.chance(1, 2)) {
                auto it = cfg.hints->alt.find(content);
                if(it != cfg.hints->alt.end() && !it->second.empty()) { content = it->second[rng.below(it->second.size())]; vs.alternative++; }
            }
            emit_tlv(o, t, false, content, rng, cfg, vs, false);
        }
        off += t.total;
    }
    return true;
}

bool ber_variant(const Bytes &der, Rng &rng, Bytes &out, VariantStats &vs, const BerHints *hints) {
    VarCfg cfg; cfg.hints = hints;
    cfg.p_indef = (unsigned)rng.below(13);      // 0..12 of 16
    cfg.p_long = (unsigned)rng.below(9);
    cfg.p_seg = (unsigned)rng.below(11);
    out.clear();
    return rewrite(der.data(), der.size(), out, rng, cfg, vs, 0);
}

void ber_collect_hints(const asn_TYPE_descriptor_t *td, void *st, BerHints &h) {
    walk(td, st, [&](const Node &n) {
        Kind k = kind_of(n.td);
        if(k == K_OCTET_STRING || k == K_STRING) {
            const OCTET_STRING_t *s = (const OCTET_STRING_t *)n.ptr;
            if(s->buf && s->size) h.strings.insert(Bytes(s->buf, s->buf + s->size));
        } else if(k == K_BIT_STRING) {
            const BIT_STRING_t *s = (const BIT_STRING_t *)n.ptr;
            if(s->buf && s->size) { Bytes b; b.push_back((uint8_t)(s->bits_unused & 7)); b.insert(b.end(), s->buf, s->buf + s->size); h.bitstrings.insert(b); }
        } else if((k == K_SET || k == K_SET_OF || k == K_SEQUENCE) && h.unordered.size() + h.extensible.size() < 64) {
            EncResult e = encode_to_vec((asn_TYPE_descriptor_t *)n.td, n.ptr, SY_DER);
            Tlv t;
            if(e.encoded > 0 && tlv_parse(e.out.data(), e.out.size(), t) && t.constructed) {
                // strip every outer tag (EXPLICIT chains) down to the SET / SEQUENCE contents: the innermost constructed header before the members
                size_t off = 0; Tlv cur = t; size_t base = 0;
                for(unsigned lv = 1; lv < n.td->tags_count && cur.constructed; lv++) { base += cur.hdr; Tlv in; if(!tlv_parse(e.out.data() + base, e.out.size() - base, in)) break; cur = in; }
                (void)off;
                Bytes content(e.out.begin() + base + cur.hdr, e.out.begin() + base + cur.hdr + cur.len);
                if(k == K_SET || k == K_SET_OF) h.unordered.insert(content);
                bool ext = false;
                if(k == K_SEQUENCE) ext = ((const asn_SEQUENCE_specifics_t *)n.td->specifics)->first_extension >= 0;
                if(k == K_SET) ext = ((const asn_SET_specifics_t *)n.td->specifics)->extensible != 0;
                if(ext) h.extensible.insert(content);
            }
        } else if((k == K_NATIVE_INTEGER || k == K_INTEGER || k == K_NATIVE_ENUMERATED || k == K_ENUMERATED || k == K_BOOLEAN || k == K_OID) && h.alt.size() < 64) {
            EncResult e = encode_to_vec((asn_TYPE_descriptor_t *)n.td, n.ptr, SY_DER);
            Tlv t;
            if(e.encoded > 0 && tlv_parse(e.out.data(), e.out.size(), t)) {
                size_t base = 0; Tlv cur = t;
                while(cur.constructed) { base += cur.hdr; Tlv in; if(!tlv_parse(e.out.data() + base, e.out.size() - base, in)) break; cur = in; }
                if(!cur.constructed && cur.len > 0) {
                    Bytes key(e.out.begin() + base + cur.hdr, e.out.begin() + base + cur.hdr + cur.len);
                    std::vector<Bytes> alts;
                    if(k == K_BOOLEAN) { if(key[0]) { alts.push_back(Bytes{0x01}); alts.push_back(Bytes{0x80}); alts.push_back(Bytes{0x7f}); } }
                    else if(k == K_OID) { Bytes a = key; a.insert(a.begin() + (a.size() > 1 ? 1 : 0), 0x80); alts.push_back(a); }       // non-minimal subidentifier
                    else { uint8_t pad = (key[0] & 0x80) ? 0xff : 0x00;                                                                  // redundant sign octets
                        Bytes a = key; a.insert(a.begin(), pad); alts.push_back(a); a.insert(a.begin(), pad); a.insert(a.begin(), pad); alts.push_back(a); }
                    if(!alts.empty() && !h.alt.count(key)) h.alt[key] = alts;
                }
            }
        } else if(k == K_STRING && (!strcmp(n.td->name, "GeneralizedTime") || !strcmp(n.td->name, "UTCTime"))) {
            const OCTET_STRING_t *s = (const OCTET_STRING_t *)n.ptr;
            if(s->buf && s->size > 6 && h.alt.size() < 64) {
                Bytes key(s->buf, s->buf + s->size); std::string txt((const char *)s->buf, s->size);
                std::vector<Bytes> alts;
                auto add = [&](const std::string &x) { alts.push_back(Bytes(x.begin(), x.end())); };
                std::string body = txt; char last = txt.back();
                if(last == 'Z') body = txt.substr(0, txt.size() - 1);
                add(body + "+0100"); add(body + "-0530"); add(body);                          // offset forms and local time
                if(!strcmp(n.td->name, "GeneralizedTime")) { add(body + ".5Z"); add(body + ",25Z"); add(body.substr(0, body.size() > 12 ? 12 : body.size()) + "Z"); }
                else add(body.substr(0, body.size() > 10 ? 10 : body.size()) + "Z");       // UTCTime without seconds
                h.alt[key] = alts;
            }
        } else if(k == K_NATIVE_REAL || k == K_REAL) {
            // X.690 8.5: the same REAL may arrive in decimal (ISO 6093 NR1-3, '.' or ',') or other binary forms; asn1c only emits base-2 binary
            EncResult e = encode_to_vec((asn_TYPE_descriptor_t *)n.td, n.ptr, SY_DER);
            Tlv t;
            if(e.encoded > 0 && tlv_parse(e.out.data(), e.out.size(), t) && !t.constructed) {
                Bytes key(e.out.begin() + t.hdr, e.out.begin() + t.hdr + t.len);
                double d = 0; bool have = false;
                if(k == K_NATIVE_REAL) { size_t fs = struct_size_of(n.td); d = fs == sizeof(float) ? (double)*(const float *)n.ptr : *(const double *)n.ptr; have = true; }
                else if(asn_REAL2double && asn_REAL2double((const REAL_t *)n.ptr, &d) == 0) have = true;
                std::vector<Bytes> alts;
                auto text = [&](uint8_t form, const char *fmt, bool comma) { char b[64]; int m = snprintf(b, sizeof b, fmt, d); if(m <= 0 || m >= (int)sizeof b) return; Bytes a; a.push_back(form);
                    for(int i = 0; i < m; i++) a.push_back((uint8_t)(comma && b[i] == '.' ? ',' : b[i])); alts.push_back(a); };
                if(have && d == d && d - d == 0) {                     // finite
                    text(0x03, "%.17E", false); text(0x03, "%.17E", true); text(0x02, "%.6f", false); text(0x02, "%.3f", true); text(0x03, " %.9e", true);
                    if(d == (double)(long)d && d < 1e15 && d > -1e15) text(0x01, "%.0f", false);
                }
                alts.push_back(Bytes{0x40}); alts.push_back(Bytes{0x41}); alts.push_back(Bytes{0x42}); alts.push_back(Bytes{0x43});
                h.alt[key] = alts;
            }
        }
        return true;
    }, 20000);
}

// ---------------------------------------------------------------- XER
void xer_strip_trailing_ws(Bytes &b) {
    while(!b.empty() && (b.back() == ' ' || b.back() == '\n' || b.back() == '\r' || b.back() == '\t')) b.pop_back();
}
void xer_variant(const Bytes &x, Rng &rng, Bytes &out, XerVariantStats &vs, bool favour_prolog) {
    // type-agnostic rewriting of the markup around the values; what the decoder rejects is dropped by the callers' precondition
    out.clear();
    unsigned p_ws = (unsigned)rng.below(10), p_cm = (unsigned)rng.below(5), p_et = (unsigned)rng.below(8), p_cr = (unsigned)rng.below(6), p_at = (unsigned)rng.below(5);
    size_t n = x.size();
    bool in_text = false;        // between a '>' and the next '<'
    bool in_open_tag = false;    // inside <name ...> (not a closing tag, comment or processing instruction)
    // a prolog in front of the outermost tag: whitespace, a comment, a comment that holds commented-out markup of this very document
    if(rng.below(16) < p_cm + 1 || (favour_prolog && rng.chance(1, 2))) {
        switch(rng.below(favour_prolog ? 6 : 4)) {
        case 0: { static const char w[] = "\n  "; out.insert(out.end(), w, w + 3); vs.whitespace++; break; }
        case 1: { static const char w[] = "<!-- draft -->\n"; out.insert(out.end(), w, w + sizeof w - 1); vs.comments++; break; }
        case 2: { static const char w[] = "<?xml version=\"1.0\"?>"; out.insert(out.end(), w, w + sizeof w - 1); vs.comments++; break; }
        default: { static const char a[] = "<!-- was: "; static const char b[] = " -->";
                   out.insert(out.end(), a, a + sizeof a - 1);
                   for(size_t i = 0; i < n && i < 200; i++) { if(x[i] == '-' && i + 1 < n && x[i + 1] == '-') continue; out.push_back(x[i]); }   // "--" may not occur inside a comment
                   out.insert(out.end(), b, b + sizeof b - 1); vs.comments++; break; }
        }
    }
    for(size_t i = 0; i < n; i++) {
        uint8_t c = x[i];
        if(c == '<') { in_text = false; in_open_tag = i + 1 < n && x[i + 1] != '/' && x[i + 1] != '!' && x[i + 1] != '?'; } else if(c == '>') in_text = true;
        if(c == '>' && in_open_tag) {
            // attributes on an opening tag (the XER decoders skip them): quoted values may hold blanks, a '>', an apostrophe
            in_open_tag = false;
            if(i > 0 && x[i - 1] != '/' && rng.below(16) < p_at) {
                static const char *at[] = {" v=\"1\"", " a=\"x y\" b=\"\"", " note=\"1>0\"", " q=\"it's\"", "  xmlns:k=\"urn:x/y\" k:z=\"<!--\""};
                const char *w = at[rng.below(5)]; out.insert(out.end(), w, w + strlen(w)); vs.attributes++;
            }
        }
        if(c == '<' && i + 1 < n && x[i + 1] != '/' && x[i + 1] != '!') {
            // <tag></tag>  ->  <tag/>
            size_t j = i + 1; while(j < n && x[j] != '>' && x[j] != '/') j++;
            if(j < n && x[j] == '>') {
                std::string name((const char *)&x[i + 1], j - i - 1);
                std::string closing = "</" + name + ">";
                if(j + 1 + closing.size() <= n && !memcmp(&x[j + 1], closing.data(), closing.size()) && rng.below(16) < p_et) {
                    out.push_back('<'); out.insert(out.end(), name.begin(), name.end()); out.push_back('/'); out.push_back('>');
                    i = j + closing.size(); vs.emptytags++;
                    continue;
                }
            }
        }
        out.push_back(c);
        if(c == '>' && i + 1 < n && x[i + 1] == '<') {
            if(rng.below(16) < p_ws) { static const char *ws[] = {" ", "\n", "\r\n\t", "  \n  "}; const char *w = ws[rng.below(4)]; out.insert(out.end(), w, w + strlen(w)); vs.whitespace++; }
            if(rng.below(16) < p_cm) { static const char *cm[] = {"<!-- c -->", "<!---->", "<!-- <x> & -->"}; const char *w = cm[rng.below(3)]; out.insert(out.end(), w, w + strlen(w)); vs.comments++; }
        } else if(c != '>' && c != '<' && c != '&' && c != ';' && c >= 0x20 && c < 0x7f && i > 0 && i + 1 < n) {
            // inside text: a character may travel as a character reference
            if(in_text && rng.below(64) < p_cr) { char buf[16]; int m = snprintf(buf, sizeof buf, rng.chance(1, 2) ? "&#x%x;" : "&#%u;", (unsigned)c); out.pop_back(); out.insert(out.end(), buf, buf + m); vs.charrefs++; }
        }
    }
}
void xer_boundaries(const Bytes &b, std::vector<size_t> &out) {
    for(size_t i = 0; i < b.size(); i++) {
        uint8_t c = b[i];
        if(c == '<' || c == '>' || c == '&' || c == ';' || c == '/') { out.push_back(i); out.push_back(i + 1); }
    }
}
