#ifndef SIM_TRANSPORT_H
#define SIM_TRANSPORT_H
#include "core.h"
extern const char *TRANSPORT_FAULTS[];
extern const int N_TRANSPORT_FAULTS;
// apply nfaults seeded transport faults to b; `other` = an encoding of a different type for splices (may be NULL)
void transport_damage(Bytes &b, Rng &r, const Bytes *other, std::vector<std::string> &applied, unsigned nfaults);
#endif
