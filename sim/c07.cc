// C07: encoder API contract under sink and buffer faults.  DESIGN 5.2
#include "engine.h"
#include "walker.h"
#include "damage.h"
#include <cerrno>
#include <algorithm>

namespace {

const Syntax ENC_SYNTAXES[] = {SY_DER, SY_OER, SY_UPER, SY_XER, SY_CXER};

struct Sink {
    long fail_at = -1; bool sticky = false;
    long calls = 0; size_t bytes = 0; bool failed = false; bool runaway = false;
    bool keep = false; Bytes data;
    size_t cap = 32u << 20;
};
static int sink_cb(const void *buf, size_t size, void *key) {
    Sink *s = (Sink *)key;
    long k = s->calls++;
    if((k & 1023) == 0) status_progress();
    if(s->fail_at >= 0 && (k == s->fail_at || (s->sticky && k > s->fail_at))) { s->failed = true; return -1; }
    s->bytes += size;
    if(s->bytes > s->cap) { s->runaway = true; return -1; }      // a non-terminating producer ends here
    if(s->keep) {
        int save = sim_in_lib; sim_in_lib = 0;
        s->data.insert(s->data.end(), (const uint8_t *)buf, (const uint8_t *)buf + size);
        sim_in_lib = save;
    }
    return 0;
}

struct Subject {
    asn_TYPE_descriptor_t *td = nullptr;
    void *st = nullptr;
    Plan head;          // property/program/type/value + damage ops
    bool sweep = false; // alignment sweep subject: big and numerous, so only the PER encoder (the one with a staging buffer) and only callback failures
};

struct Ref { ssize_t n = -1; long calls = 0; int err = 0; Bytes bytes; };

struct Verdict { bool violated = false; std::string cls, site, detail; };

static std::string mk_sig(const Subject &s, Syntax sy, const Verdict &v) {
    return std::string("C07/") + v.cls + "/" + syntax_name(sy) + "/" + (v.site.empty() ? kind_name(kind_of(s.td)) : v.site);
}

// which encoder function family owns the failing type: "<KIND>_encode_<syntax>" approximated by the kind of failed_type
static std::string failed_site(const asn_enc_rval_t &er, const Subject &s) {
    const asn_TYPE_descriptor_t *t = er.failed_type ? er.failed_type : s.td;
    return kind_name(kind_of(t));
}

// ---- op: encode through asn_encode with the simulated sink
static Verdict op_encode(const Subject &s, Syntax sy, long cbfail, bool sticky, Ref *ref_out, const Ref *ref) {
    Verdict v;
    Sink sink; sink.fail_at = cbfail; sink.sticky = sticky; sink.keep = (ref_out != nullptr);
    asn_enc_rval_t er; memset(&er, 0, sizeof er); er.encoded = -2;
    errno = 0;
    bool ok = libcall([&] { er = asn_encode(0, syntax_ats(sy), s.td, s.st, sink_cb, &sink); });
    int err = errno;
    EV.ev("encode %s cbfail=%ld%s -> %s %zd errno=%d calls=%ld bytes=%zu", syntax_name(sy), cbfail, sticky ? " sticky" : "",
          ok ? "ret" : "ABORT", ok ? er.encoded : (ssize_t)0, ok ? err : 0, sink.calls, sink.bytes);
    if(sink.failed) G.add("c07.fired.sink_failure");
    if(!ok) { v.violated = true; v.cls = "abort"; v.site = abort_site(); v.detail = "assertion inside asn_encode"; return v; }
    if(sink.runaway) { v.violated = true; v.cls = "runaway-output"; v.site = failed_site(er, s);
        v.detail = "encoder produced more than " + L((long)sink.cap) + " bytes (non-terminating)"; return v; }
    if(sink.failed) {
        if(er.encoded != -1) { v.violated = true; v.cls = "cbfail-not-reported"; v.site = kind_name(kind_of(s.td));
            v.detail = "sink returned -1 at invocation " + L(cbfail) + " but asn_encode returned " + L((long)er.encoded); return v; }
        if(err != EIO) { v.violated = true; v.cls = "cbfail-errno"; v.site = kind_name(kind_of(s.td));
            v.detail = "sink failed, result -1 but errno=" + L(err) + " (expected EIO)"; return v; }
        return v;
    }
    if(er.encoded >= 0) {
        if((size_t)er.encoded != sink.bytes) { v.violated = true; v.cls = "size-mismatch"; v.site = failed_site(er, s);
            v.detail = "reported " + L((long)er.encoded) + " bytes, sink received " + L((long)sink.bytes); return v; }
        if(ref && ref->n >= 0 && er.encoded != ref->n) { v.violated = true; v.cls = "unstable-size"; v.site = kind_name(kind_of(s.td));
            v.detail = "second encode of the same structure reported a different size"; return v; }
    } else if(er.encoded == -1) {
        if(err == 0) { v.violated = true; v.cls = "fail-without-errno"; v.site = failed_site(er, s);
            v.detail = "asn_encode returned -1 with errno 0"; return v; }
    } else { v.violated = true; v.cls = "bad-result"; v.detail = "asn_encode returned " + L((long)er.encoded); return v; }
    if(ref_out) { ref_out->n = er.encoded; ref_out->calls = sink.calls; ref_out->err = err; ref_out->bytes = sink.data; }
    return v;
}

// ---- op: asn_encode_to_buffer with an exact-size heap buffer
static Verdict op_tobuf(const Subject &s, Syntax sy, size_t size, const Ref &ref) {
    Verdict v;
    uint8_t *buf = size ? (uint8_t *)malloc(size) : nullptr;
    if(size) memset(buf, 0xA5, size);
    asn_enc_rval_t er; memset(&er, 0, sizeof er); er.encoded = -2;
    errno = 0;
    bool ok = libcall([&] { er = asn_encode_to_buffer(0, syntax_ats(sy), s.td, s.st, buf, size); });
    int err = errno;
    EV.ev("tobuf %s size=%zu -> %s %zd errno=%d", syntax_name(sy), size, ok ? "ret" : "ABORT", ok ? er.encoded : (ssize_t)0, ok ? err : 0);
    if(size < (size_t)std::max<ssize_t>(ref.n, 0)) G.add("c07.fired.short_buffer");
    if(!ok) { v.violated = true; v.cls = "abort"; v.site = abort_site(); v.detail = "assertion inside asn_encode_to_buffer size=" + L((long)size); }
    else if(er.encoded != ref.n) { v.violated = true; v.cls = "tobuf-size"; v.site = kind_name(kind_of(s.td));
        v.detail = "buffer size " + L((long)size) + ": reported " + L((long)er.encoded) + ", asn_encode reported " + L((long)ref.n); }
    else if(ref.n >= 0 && size >= (size_t)ref.n && ref.n > 0 && memcmp(buf, ref.bytes.data(), ref.n) != 0) {
        v.violated = true; v.cls = "tobuf-content"; v.site = kind_name(kind_of(s.td)); v.detail = "buffer contents differ from the bytes asn_encode delivered"; }
    else if(ref.n >= 0 && size > (size_t)ref.n && buf[ref.n] != 0xA5) {
        v.violated = true; v.cls = "tobuf-overrun"; v.site = kind_name(kind_of(s.td)); v.detail = "byte past the reported size was modified"; }
    else if(er.encoded == -1 && err == 0) { v.violated = true; v.cls = "fail-without-errno"; v.site = failed_site(er, s); v.detail = "to_buffer returned -1 with errno 0"; }
    free(buf);
    return v;
}

// ---- op: asn_encode_to_new_buffer, optionally with an allocation failure
static Verdict op_tonew(const Subject &s, Syntax sy, long allocfail, bool sticky, const Ref &ref, long *allocs_seen) {
    Verdict v;
    asn_encode_to_new_buffer_result_t res; memset(&res, 0, sizeof res); res.result.encoded = -2;
    sim_alloc_begin_op(1);
    sim_alloc_fail_at(allocfail, sticky);
    errno = 0;
    bool ok = libcall([&] { res = asn_encode_to_new_buffer(0, syntax_ats(sy), s.td, s.st); });
    int err = errno;
    long seen = sim_alloc_op_count();
    int fired = sim_alloc_fault_fired();
    sim_alloc_fail_at(-1, 0);
    if(allocs_seen) *allocs_seen = seen;
    if(fired) G.add("c07.fired.alloc_failure");
    EV.ev("tonew %s allocfail=%ld -> %s %zd buf=%d fired=%d", syntax_name(sy), allocfail, ok ? "ret" : "ABORT",
          ok ? res.result.encoded : (ssize_t)0, ok ? res.buffer != 0 : 0, fired);
    if(!ok) { v.violated = true; v.cls = "abort"; v.site = abort_site(); v.detail = "assertion inside asn_encode_to_new_buffer"; return v; }
    if(res.buffer) {
        size_t blk = sim_alloc_size_of(res.buffer);
        if(res.result.encoded < 0) {
            // an encoding failure with a buffer handed out is not what the contract says ("exact-length buffer or NULL")
            if(!fired) { v.violated = true; v.cls = "tonew-buffer-on-failure"; v.site = failed_site(res.result, s); v.detail = "result -1 but a buffer was returned"; }
        } else if(ref.n >= 0 && !fired) {
            if(res.result.encoded != ref.n) { v.violated = true; v.cls = "tonew-size"; v.detail = "reported " + L((long)res.result.encoded) + " vs " + L((long)ref.n); }
            else if(blk < (size_t)ref.n + 1) { v.violated = true; v.cls = "tonew-short-block"; v.detail = "block smaller than encoding + NUL"; }
            else if(ref.n > 0 && memcmp(res.buffer, ref.bytes.data(), ref.n) != 0) { v.violated = true; v.cls = "tonew-content"; v.detail = "buffer contents differ"; }
            else if(((char *)res.buffer)[ref.n] != 0) { v.violated = true; v.cls = "tonew-no-nul"; v.detail = "no terminating NUL"; }
        } else if(fired && res.result.encoded >= 0) {
            // survived an allocation failure and still returned a buffer: must then be exact
            if(blk < (size_t)res.result.encoded + 1 || (ref.n >= 0 && (res.result.encoded != ref.n || (ref.n > 0 && memcmp(res.buffer, ref.bytes.data(), ref.n) != 0)))) {
                v.violated = true; v.cls = "tonew-wrong-after-oom"; v.detail = "buffer returned after an allocation failure is not the exact encoding"; }
        }
        if(v.violated && v.site.empty()) v.site = kind_name(kind_of(s.td));
        free(res.buffer);
    } else {
        if(!fired && ref.n >= 0) { v.violated = true; v.cls = "tonew-null-without-cause"; v.site = kind_name(kind_of(s.td)); v.detail = "NULL buffer although encoding succeeds and no allocation failed"; }
        if(res.result.encoded == -1 && err == 0 && !fired) { v.violated = true; v.cls = "fail-without-errno"; v.site = failed_site(res.result, s); v.detail = "to_new_buffer returned -1 with errno 0"; }
    }
    return v;
}

static bool emit(const Subject &s, Syntax sy, const Verdict &v, const Op &op) {
    G.add("c07.ops");
    status_progress();
    if(!v.violated) return true;
    report_violation("C07", mk_sig(s, sy, v), v.detail, s.head.str() + op.str());
    return false;
}

static Op op_enc(Syntax sy, long k, bool sticky) {
    Op o = mkop("encode", {syntax_name(sy)});
    if(k >= 0) { o.attrs["cbfail"] = L(k); o.attrs["mode"] = sticky ? "sticky" : "transient"; }
    return o;
}

static bool build_subject(uint64_t seed, Subject &s, bool *damaged, uint64_t index) {
    Rng rd = stream(seed, "damage");
    if(index < pdu_types().size() && struct_size_of(pdu_types()[index])) {
        // sweep: the all-zero structure of EVERY PDU type is explored once per batch (empty strings against SIZE lower bounds,
        // unselected CHOICEs, missing mandatory pointers, zero-length collections)
        s.td = pdu_types()[index];
        s.st = value_from_spec(s.td, "zero");
        if(!s.st) return false;
        s.head.set("property", "C07"); s.head.set("program", SIM_PROGRAM); s.head.set("type", s.td->name); s.head.set("value", "zero");
        *damaged = true;
        return true;
    }
    {   // sweep: where the program has the Batch type, its exact-fragment value (16384 elements) at every label length, i.e. alignment
        const uint64_t base = pdu_types().size();
        asn_TYPE_descriptor_t *bt = pdu_by_name("Batch");
        if(bt && index >= base && index < base + 64) {
            std::string spec = "bulk:batch.exact-fragments:" + L((long)(index - base));
            s.td = bt; s.st = value_from_spec(bt, spec);
            if(!s.st) return false;
            s.head.set("property", "C07"); s.head.set("program", SIM_PROGRAM); s.head.set("type", bt->name); s.head.set("value", spec);
            *damaged = false; s.sweep = true; G.add("c07.alignment_sweep_subjects");
            return true;
        }
    }
    ValueChoice v = choose_value(seed, 200);
    s.td = v.td;
    std::string spec = v.origin;
    if(v.st && rd.chance(1, 16) && struct_size_of(v.td)) {   // all-zero structure
        free_struct(v.td, v.st);
        spec = "zero";
        v.st = value_from_spec(v.td, spec);
    }
    if(!v.st) return false;
    s.st = v.st;
    s.head.set("property", "C07");
    s.head.set("program", SIM_PROGRAM);
    s.head.set("type", s.td->name);
    s.head.set("value", spec);
    *damaged = (spec == "zero");
    if(spec != "zero" && rd.chance(1, 2)) {
        unsigned nd = 1 + (unsigned)rd.below(2);
        for(unsigned i = 0; i < nd; i++) {
            Op d = random_damage(s.td, s.st, rd);
            if(d.args[0] == "none") break;
            if(apply_damage(s.td, s.st, d)) { s.head.ops.push_back(d); *damaged = true; G.add("c07.damage." + d.args[0]); }
        }
    }
    return true;
}

static void explore(Subject &s, bool thorough, Rng &r) {
    for(Syntax sy : ENC_SYNTAXES) {
        if(s.sweep && sy != SY_UPER) continue;
        std::string hs = s.head.str();
        status_head(hs);
        // fault-free reference
        Ref ref;
        { Op o = op_enc(sy, -1, false); status_ops(o.str());
          Verdict v = op_encode(s, sy, -1, false, &ref, nullptr);
          if(!emit(s, sy, v, o)) continue; }
        G.add(ref.n >= 0 ? "c07.encodable" : "c07.unencodable");
        G.max("c07.max_callbacks", (uint64_t)ref.calls);
        // callback failure at every invocation index (enumerated up to the cap, sampled above)
        // work budget: each op costs about one encoding; keep bytes produced per (subject, syntax) bounded
        size_t unit = (size_t)std::max<ssize_t>(ref.n, 16) + 64 * (size_t)ref.calls;
        size_t wb = (thorough ? (64u << 20) : (6u << 20)) / unit;
        long cap = (long)std::min<size_t>(thorough ? 4096 : 384, std::max<size_t>(wb / 4, 4));
        if(s.sweep) cap = 1;
        std::vector<long> ks;
        if(ref.calls <= cap) { for(long k = 0; k < ref.calls; k++) ks.push_back(k); G.add("c07.cb_enumerated_fully"); }
        else { for(long i = 0; i < cap; i++) ks.push_back((long)r.below((uint64_t)ref.calls)); ks.push_back(0); for(long d = 1; d <= (s.sweep ? 4 : 8) && d <= ref.calls; d++) ks.push_back(ref.calls - d);   /* the calls that carry trailers and terminators */ G.add("c07.cb_sampled"); }
        bool stop = false;
        for(long k : ks) {
            for(int sticky = 0; sticky < 2 && !stop; sticky++) {
                Op o = op_enc(sy, k, sticky);
                status_ops(o.str());
                Verdict v = op_encode(s, sy, k, sticky, nullptr, &ref);
                if(!emit(s, sy, v, o)) stop = true;
            }
            if(stop) break;
        }
        if(stop || s.sweep) continue;
        // every buffer size 0..n+1
        size_t n = ref.n >= 0 ? (size_t)ref.n : 8;
        size_t scap = std::min<size_t>(thorough ? 8192 : 768, std::max<size_t>(wb / 2, 8));
        std::vector<size_t> sizes;
        if(n + 1 <= scap) for(size_t z = 0; z <= n + 1; z++) sizes.push_back(z);
        else { for(size_t i = 0; i < scap; i++) sizes.push_back((size_t)r.below(n + 2)); sizes.push_back(0); sizes.push_back(n - 1); sizes.push_back(n); sizes.push_back(n + 1); }
        for(size_t z : sizes) {
            Op o = mkop("tobuf", {syntax_name(sy)}); o.attrs["size"] = L((long)z);
            status_ops(o.str());
            Verdict v = op_tobuf(s, sy, z, ref);
            if(!emit(s, sy, v, o)) { stop = true; break; }
        }
        if(stop) continue;
        // to_new_buffer: fault free, then every allocation index
        long allocs = 0;
        { Op o = mkop("tonew", {syntax_name(sy)}); status_ops(o.str());
          Verdict v = op_tonew(s, sy, -1, false, ref, &allocs);
          if(!emit(s, sy, v, o)) continue; }
        long acap = (long)std::min<size_t>(thorough ? 256 : 48, std::max<size_t>(wb / 8, 2));
        for(long k = 0; k < allocs && k < acap; k++) {
            for(int sticky = 0; sticky < 2; sticky++) {
                Op o = mkop("tonew", {syntax_name(sy)}); o.attrs["allocfail"] = L(k); if(sticky) o.attrs["mode"] = "sticky";
                status_ops(o.str());
                Verdict v = op_tonew(s, sy, k, sticky, ref, nullptr);
                if(!emit(s, sy, v, o)) { stop = true; break; }
            }
            if(stop) break;
        }
    }
}

static void c07_run(uint64_t seed, uint64_t index, bool thorough) {
    Subject s; bool damaged = false;
    if(!build_subject(seed, s, &damaged, index)) { G.add("c07.skip.novalue"); return; }
    G.add("c07.subjects"); G.add(damaged ? "c07.subjects.damaged" : "c07.subjects.valid");
    uint64_t fired0 = G.n["c07.fired.sink_failure"] + G.n["c07.fired.short_buffer"] + G.n["c07.fired.alloc_failure"];
    Rng r = stream(seed, "faults");
    explore(s, thorough, r);
    if(G.n["c07.fired.sink_failure"] + G.n["c07.fired.short_buffer"] + G.n["c07.fired.alloc_failure"] > fired0)
        G.seen("c07.nontrivial_subjects", hash_str(s.head.str()));
    if(G.samples.size() < 4 && index % 5 == 0) G.samples.push_back(s.head.str() + "op encode DER cbfail=0 mode=sticky\nop tobuf OER size=3\nop tonew XER allocfail=0\n");
    status_head(s.head.str()); status_ops("op free\n");
    free_struct(s.td, s.st);
    sim_alloc_free_all_live();
}

static ReplayResult c07_replay(const Plan &p) {
    ReplayResult rr;
    Subject s;
    s.td = pdu_by_name(p.get("type"));
    if(!s.td) { rr.skipped = true; rr.detail = "unknown type"; return rr; }
    s.st = value_from_spec(s.td, p.get("value"));
    if(!s.st) { rr.skipped = true; rr.detail = "value could not be rebuilt"; return rr; }
    s.head = p; s.head.ops.clear();
    for(auto &op : p.ops) if(op.name == "damage") { if(!apply_damage(s.td, s.st, op)) { rr.skipped = true; rr.detail = "damage not applicable"; return rr; } s.head.ops.push_back(op); }
    std::map<int, Ref> refs;
    for(auto &op : p.ops) {
        if(op.name == "damage") continue;
        Syntax sy;
        if(op.args.empty() || !syntax_from_name(op.args[0], sy)) continue;
        Verdict v;
        if(op.name == "encode" && !op.has("cbfail")) { Ref ref; v = op_encode(s, sy, -1, false, &ref, nullptr); refs[sy] = ref; }
        else {
            if(!refs.count(sy)) { Ref ref; Verdict v0 = op_encode(s, sy, -1, false, &ref, nullptr);
                if(v0.violated) { rr.violated = true; rr.sig = mk_sig(s, sy, v0); rr.detail = v0.detail; return rr; }
                refs[sy] = ref; }
            if(op.name == "encode") v = op_encode(s, sy, op.attrl("cbfail", -1), op.attr("mode") == "sticky", nullptr, &refs[sy]);
            else if(op.name == "tobuf") v = op_tobuf(s, sy, (size_t)op.attrl("size", 0), refs[sy]);
            else if(op.name == "tonew") v = op_tonew(s, sy, op.attrl("allocfail", -1), op.attr("mode") == "sticky", refs[sy], nullptr);
        }
        if(v.violated) { rr.violated = true; rr.sig = mk_sig(s, sy, v); rr.detail = v.detail; return rr; }
    }
    free_struct(s.td, s.st);
    return rr;
}

} // namespace

Engine engine_c07 = {"C07", c07_run, c07_replay, nullptr};
