// C19: reentrancy - concurrent use equals sequential use, no data race.  DESIGN 5.6
// One binary per program: runtime + tables compiled with clang -fsanitize=thread, linked against tsanlite.
#include "core.h"
#include "walker.h"
#include "ber.h"
#include "transport.h"
#include "tsanlite.h"
#include <cerrno>
#include <cstdlib>
#include <ctime>
#include <fstream>
#include <sstream>
#include <algorithm>
#include <unistd.h>
#include <sys/wait.h>
extern "C" {
#include <constraints.h>
}

// ---------------------------------------------------------------- workload
struct Input { asn_TYPE_descriptor_t *td; std::map<int, Bytes> enc; };
struct ScriptOp { int kind; int input; int syntax; int chunk; };   // kinds below
enum { O_DECODE, O_DECODE_CHUNKED, O_ENCODE, O_CHECK, O_PRINT, O_COMPARE, O_FREE };
static const char *OPN[] = {"decode", "decode-chunked", "encode", "check", "print", "compare", "free"};
struct OpResult { int a = 0; long b = 0; uint64_t h = 0; int err = 0; bool operator==(const OpResult &o) const { return a == o.a && b == o.b && h == o.h && err == o.err; } };

struct ThreadCtx {
    const std::vector<Input> *inputs;
    std::vector<ScriptOp> script;
    std::vector<OpResult> results;
};

struct HashSink { uint64_t h = 0xcbf29ce484222325ULL; size_t n = 0; };
static int hash_cb(const void *buf, size_t size, void *key) {
    HashSink *s = (HashSink *)key;
    s->h = fnv1a(buf, size, s->h); s->n += size;
    if(getenv("SIM_C19_DUMP")) { fwrite(buf, 1, size, stderr); }
    tsl_sched_point();
    return 0;
}

static void *thread_main(void *arg) {
    ThreadCtx *c = (ThreadCtx *)arg;
    void *slot[2] = {nullptr, nullptr}; asn_TYPE_descriptor_t *slot_td[2] = {nullptr, nullptr};
    c->results.assign(c->script.size(), OpResult());
    for(size_t i = 0; i < c->script.size(); i++) {
        const ScriptOp &op = c->script[i];
        const Input &in = (*c->inputs)[(size_t)op.input];
        OpResult &r = c->results[i];
        int si = (int)(i & 1);
        Syntax sy = (Syntax)op.syntax;
        switch(op.kind) {
        case O_DECODE: case O_DECODE_CHUNKED: {
            auto it = in.enc.find(sy);
            if(it == in.enc.end()) { r.a = -100; break; }
            if(slot[si]) { ASN_STRUCT_FREE(*slot_td[si], slot[si]); slot[si] = nullptr; }
            const Bytes &E = it->second;
            asn_dec_rval_t rv; rv.code = RC_WMORE; rv.consumed = 0;
            size_t off = 0, avail = 0; long total = 0;
            errno = 0;
            if(op.kind == O_DECODE || sy == SY_UPER) { rv = asn_decode(0, syntax_ats(sy), in.td, &slot[si], E.data(), E.size()); total = (long)rv.consumed; }
            else {
                size_t chunk = (size_t)std::max(1, op.chunk);
                while(rv.code == RC_WMORE && avail < E.size()) {
                    avail = std::min(E.size(), avail + chunk);
                    rv = asn_decode(0, syntax_ats(sy), in.td, &slot[si], E.data() + off, avail - off);
                    off += rv.consumed; total = (long)off;
                    tsl_sched_point();
                }
            }
            slot_td[si] = in.td;
            r.a = rv.code; r.b = total;
            break; }
        case O_ENCODE: {
            if(!slot[si]) { r.a = -100; break; }
            HashSink hs; errno = 0;
            asn_enc_rval_t er = asn_encode(0, syntax_ats(sy), slot_td[si], slot[si], hash_cb, &hs);
            r.a = 0; r.b = (long)er.encoded; r.h = hs.h; r.err = er.encoded < 0 ? errno : 0;
            break; }
        case O_CHECK: {
            if(!slot[si]) { r.a = -100; break; }
            char eb[160]; size_t el = sizeof eb; eb[0] = 0;
            r.a = asn_check_constraints(slot_td[si], slot[si], eb, &el);
            r.h = r.a ? fnv1a(eb, strnlen(eb, sizeof eb)) : 0;
            break; }
        case O_PRINT: {
            if(!slot[si]) { r.a = -100; break; }
            HashSink hs;
            r.a = slot_td[si]->op->print_struct(slot_td[si], slot[si], 1, hash_cb, &hs);
            r.h = hs.h; r.b = (long)hs.n;
            break; }
        case O_COMPARE: {
            if(!slot[0] || !slot[1] || slot_td[0] != slot_td[1]) { r.a = -100; break; }
            // compare_struct is not among the calls the property quantifies over and INTEGER_compare / OCTET_STRING_compare
            // dereference buf of an empty value (observed, out of scope - DESIGN 15.5): only compare structures without NULL buffers
            if(has_null_buf_string(slot_td[0], slot[0]) || has_null_buf_string(slot_td[1], slot[1])) { r.a = -101; break; }
            r.a = slot_td[0]->op->compare_struct(slot_td[0], slot[0], slot[1]);
            break; }
        case O_FREE: {
            if(!slot[si]) { r.a = -100; break; }
            ASN_STRUCT_FREE(*slot_td[si], slot[si]); slot[si] = nullptr; r.a = 1;
            break; }
        }
        tsl_sched_point();
    }
    for(int k = 0; k < 2; k++) if(slot[k]) ASN_STRUCT_FREE(*slot_td[k], slot[k]);
    return nullptr;
}

// ---------------------------------------------------------------- case generation (main thread, before any concurrency)
static std::vector<asn_TYPE_descriptor_t *> type_menu() {
    std::vector<asn_TYPE_descriptor_t *> m;
    for(auto *t : pdu_types()) {
        if(!fillable(t) && seed_value_texts(t).empty()) continue;   // open types cannot be random-filled: seed values from corpus/values
        int w = 1;
        if(!fillable(t)) w = 3;
        std::string n = t->name;
        if(n == "Strs" || n == "Prims") w = 4;                     // time / REAL / OID helpers call into libc
        if(kind_constructed(kind_of(t))) w += 1;
        for(int i = 0; i < w; i++) m.push_back(t);
    }
    return m;
}

struct Case { int nthreads; std::vector<Input> inputs; std::vector<ThreadCtx> threads; };

static bool build_case(uint64_t run_seed, Case &c) {
    Rng r = stream(run_seed, "c19case");
    static auto menu = type_menu();
    if(menu.empty()) return false;
    c.nthreads = 2 + (int)r.below(3);
    // a small shared pool of types so that threads share descriptors most of the time
    size_t npool = 1 + r.below(2);
    std::vector<asn_TYPE_descriptor_t *> pool;
    for(size_t i = 0; i < npool; i++) pool.push_back(menu[r.below(menu.size())]);
    size_t ninputs = 2 + r.below(4);
    static const Syntax syns[] = {SY_DER, SY_OER, SY_UPER, SY_XER, SY_CXER};
    for(size_t i = 0; i < ninputs; i++) {
        Input in; in.td = pool[r.below(pool.size())];
        void *st = nullptr;
        { uint64_t vs = r.next(); size_t budget = 8 + r.below(120);
          // hand-written seed values take turns with asn_random_fill where both exist: the random filler rarely produces strings that
          // fit a permitted alphabet, so without them the PER value maps (and whatever the compiler emits for them) would hardly run
          auto seeds = seed_value_texts(in.td);
          if(fillable(in.td) && (seeds.empty() || vs % 3 != 0)) st = random_value(in.td, vs, budget);
          else { auto texts = seed_value_texts(in.td); if(!texts.empty()) st = value_from_xer(in.td, texts[vs % texts.size()]); } }
        if(!st) continue;
        for(Syntax sy : syns) { EncResult e = encode_to_vec(in.td, st, sy); if(!e.aborted && e.encoded >= 0 && e.out.size() <= 4096) { if(sy == SY_XER || sy == SY_CXER) xer_strip_trailing_ws(e.out); in.enc[sy] = e.out; } }
        if(in.enc.count(SY_DER)) {     // a BER variant of the same value: indefinite lengths, segmented strings, decimal / special REAL forms
            BerHints hints; ber_collect_hints(in.td, st, hints);
            Bytes var; VariantStats vs; Rng rv(r.next());
            if(ber_variant(in.enc[SY_DER], rv, var, vs, &hints) && var.size() <= 8192) in.enc[SY_BER] = var;
        }
        if(in.enc.count(SY_XER) && r.chance(1, 2)) {     // XER as a person or another tool would write it: blanks, comments, a prolog, attributes, character references
            Bytes var; XerVariantStats xs; Rng rv(r.next());
            xer_variant(in.enc[SY_XER], rv, var, xs, !kind_constructed(kind_of(in.td)));
            if(var.size() <= 8192) { in.enc[SY_XER] = var; G.add("c19.fired.xer_markup_variant"); }
        }
        free_struct(in.td, st);
        if(!in.enc.empty() && r.chance(1, 3)) {
            // the same encodings after a corrupting transport: error paths of the decoders are library code too
            Input bad; bad.td = in.td;
            for(auto &kv : in.enc) { Bytes d = kv.second; std::vector<std::string> ap; Rng rr(r.next()); transport_damage(d, rr, nullptr, ap, 1 + (unsigned)rr.below(3)); if(d.size() <= 8192) bad.enc[kv.first] = d; }
            if(!bad.enc.empty()) { c.inputs.push_back(bad); G.add("c19.fired.damaged_input"); }
        }
        if(!in.enc.empty()) c.inputs.push_back(in);
    }
    if(c.inputs.empty()) return false;
    c.threads.resize((size_t)c.nthreads);
    for(int t = 0; t < c.nthreads; t++) {
        ThreadCtx &tc = c.threads[(size_t)t];
        tc.inputs = &c.inputs;
        size_t len = 3 + r.below(8);
        for(size_t i = 0; i < len; i++) {
            ScriptOp op; op.input = (int)r.below(c.inputs.size()); op.chunk = 1 + (int)r.below(24);
            const Input &in = c.inputs[(size_t)op.input];
            std::vector<int> have; for(auto &kv : in.enc) have.push_back(kv.first);
            unsigned k = (unsigned)r.below(100);
            if(i < 2 || k < 30) { op.kind = r.chance(1, 2) ? O_DECODE : O_DECODE_CHUNKED; op.syntax = have[r.below(have.size())]; }
            else if(k < 60) { op.kind = O_ENCODE; op.syntax = (int)syns[r.below(5)]; }
            else if(k < 72) { op.kind = O_CHECK; op.syntax = 0; }
            else if(k < 84) { op.kind = O_PRINT; op.syntax = 0; }
            else if(k < 92) { op.kind = O_COMPARE; op.syntax = 0; }
            else { op.kind = O_FREE; op.syntax = 0; }
            tc.script.push_back(op);
        }
    }
    return true;
}

static std::string describe(const Case &c) {
    std::string s;
    for(int t = 0; t < c.nthreads; t++) {
        s += "thread " + L(t) + ":";
        for(auto &op : c.threads[(size_t)t].script) {
            s += std::string(" ") + OPN[op.kind] + "(" + c.inputs[(size_t)op.input].td->name;
            if(op.kind <= O_ENCODE) s += std::string(",") + syntax_name((Syntax)op.syntax);
            if(op.kind == O_DECODE_CHUNKED) s += "," + L(op.chunk);
            s += ")";
        }
        s += "\n";
    }
    return s;
}


// ---------------------------------------------------------------- process isolation
// Every stage that calls into the library runs in a forked child of a parent that never does: value generation,
// the solo reference, and EACH schedule start from pristine library statics, so that races in lazily initialised
// state (which exist only until the first use has completed) are explored by every schedule, not just by the first
// one a worker process happens to run.
struct Buf {
    Bytes b; size_t rd = 0;
    void u64(uint64_t v) { for(int i = 0; i < 8; i++) b.push_back((uint8_t)(v >> (8 * i))); }
    void bytes(const void *p, size_t n) { u64(n); b.insert(b.end(), (const uint8_t *)p, (const uint8_t *)p + n); }
    void str(const std::string &x) { bytes(x.data(), x.size()); }
    uint64_t g64() { uint64_t v = 0; if(rd + 8 > b.size()) { rd = b.size(); return 0; } for(int i = 0; i < 8; i++) v |= (uint64_t)b[rd + i] << (8 * i); rd += 8; return v; }
    Bytes gbytes() { uint64_t n = g64(); if(rd + n > b.size()) { rd = b.size(); return Bytes(); } Bytes r(b.begin() + rd, b.begin() + rd + n); rd += n; return r; }
    std::string gstr() { Bytes r = gbytes(); return std::string(r.begin(), r.end()); }
};

struct ChildResult { bool ok = false; int status = 0; Buf out; };
static ChildResult in_child(const std::function<void(Buf &)> &fn) {
    ChildResult cr;
    int pfd[2];
    if(pipe(pfd) != 0) return cr;
    fflush(stdout); fflush(stderr);
    pid_t pid = fork();
    if(pid == 0) {
        close(pfd[0]);
        Buf o; fn(o);
        size_t off = 0;
        while(off < o.b.size()) { ssize_t w = write(pfd[1], o.b.data() + off, o.b.size() - off); if(w <= 0) break; off += (size_t)w; }
        _exit(0);
    }
    close(pfd[1]);
    uint8_t tmp[65536]; ssize_t n;
    while((n = read(pfd[0], tmp, sizeof tmp)) > 0) cr.out.b.insert(cr.out.b.end(), tmp, tmp + n);
    close(pfd[0]);
    int st = 0; waitpid(pid, &st, 0);
    cr.status = st; cr.ok = WIFEXITED(st) && WEXITSTATUS(st) == 0;
    return cr;
}
static std::string death_text(int st) {
    if(WIFSIGNALED(st)) return "signal-" + L(WTERMSIG(st));
    return "exit-" + L(WEXITSTATUS(st));
}

static void put_case(Buf &o, const Case &c) {
    o.u64((uint64_t)c.nthreads); o.u64(c.inputs.size());
    for(auto &in : c.inputs) { o.str(in.td->name); o.u64(in.enc.size()); for(auto &kv : in.enc) { o.u64((uint64_t)kv.first); o.bytes(kv.second.data(), kv.second.size()); } }
    for(auto &t : c.threads) { o.u64(t.script.size()); for(auto &op : t.script) { o.u64((uint64_t)op.kind); o.u64((uint64_t)op.input); o.u64((uint64_t)op.syntax); o.u64((uint64_t)op.chunk); } }
}
static bool get_case(Buf &i, Case &c) {
    c.nthreads = (int)i.g64(); size_t ni = (size_t)i.g64();
    if(c.nthreads < 1 || c.nthreads > TSL_MAXT || ni == 0 || ni > 64) return false;
    for(size_t k = 0; k < ni; k++) { Input in; in.td = pdu_by_name(i.gstr()); if(!in.td) return false; size_t ne = (size_t)i.g64(); for(size_t e = 0; e < ne && e < 16; e++) { int sy = (int)i.g64(); in.enc[sy] = i.gbytes(); } c.inputs.push_back(in); }
    c.threads.resize((size_t)c.nthreads);
    for(auto &t : c.threads) { t.inputs = &c.inputs; size_t ns = (size_t)i.g64(); if(ns > 64) return false; for(size_t k = 0; k < ns; k++) { ScriptOp op; op.kind = (int)i.g64(); op.input = (int)i.g64(); op.syntax = (int)i.g64(); op.chunk = (int)i.g64(); if(op.input < 0 || (size_t)op.input >= ni) return false; t.script.push_back(op); } }
    return true;
}
static void put_results(Buf &o, const std::vector<std::vector<OpResult>> &r) { o.u64(r.size()); for(auto &v : r) { o.u64(v.size()); for(auto &x : v) { o.u64((uint64_t)(int64_t)x.a); o.u64((uint64_t)x.b); o.u64(x.h); o.u64((uint64_t)(int64_t)x.err); } } }
static void get_results(Buf &i, std::vector<std::vector<OpResult>> &r) { size_t n = (size_t)i.g64(); r.clear(); for(size_t t = 0; t < n && t < 8; t++) { size_t m = (size_t)i.g64(); std::vector<OpResult> v; for(size_t k = 0; k < m && k < 64; k++) { OpResult x; x.a = (int)(int64_t)i.g64(); x.b = (long)i.g64(); x.h = i.g64(); x.err = (int)(int64_t)i.g64(); v.push_back(x); } r.push_back(v); } }

// ---------------------------------------------------------------- one schedule
struct SchedOutcome { bool violated = false; std::string cls, detail, site; tsl_stats st; };

static void pick_policy(uint64_t sched_seed, uint64_t expected, tsl_config &cfg) {
    Rng r(sched_seed ^ 0x5151);
    cfg.sched_seed = sched_seed; cfg.expected_steps = expected ? expected : 1000;
    if(r.chance(1, 3)) { cfg.policy = 1; cfg.pct_d = 1 + (int)r.below(3); cfg.inv_p = 0; }
    else { cfg.policy = 0; static const uint32_t ps[] = {8, 16, 32, 64, 128, 256, 512}; cfg.inv_p = ps[r.below(7)]; cfg.pct_d = 0; }
}

static SchedOutcome run_schedule(Case &c, const std::vector<std::vector<OpResult>> &solo, uint64_t sched_seed, uint64_t expected_steps) {
    SchedOutcome o;
    tsl_config cfg; pick_policy(sched_seed, expected_steps, cfg);
    std::vector<void *> args;
    for(auto &t : c.threads) args.push_back(&t);
    tsl_run(c.nthreads, thread_main, args.data(), &cfg, &o.st);
    for(int t = 0; t < c.nthreads && !o.violated; t++)
        for(size_t i = 0; i < c.threads[(size_t)t].script.size(); i++)
            if(!(c.threads[(size_t)t].results[i] == solo[(size_t)t][i])) {
                const ScriptOp &op = c.threads[(size_t)t].script[i];
                o.violated = true; o.cls = "result-differs"; o.site = std::string(OPN[op.kind]) + "." + (op.kind <= O_ENCODE ? syntax_name((Syntax)op.syntax) : "-") + "/" + kind_name(kind_of(c.inputs[(size_t)op.input].td));
                const OpResult &a = c.threads[(size_t)t].results[i], &b = solo[(size_t)t][i];
                o.detail = "thread " + L(t) + " op " + L((long)i) + " " + OPN[op.kind] + ": concurrent (" + L(a.a) + "," + L(a.b) + ",errno " + L(a.err) + ") vs alone (" + L(b.a) + "," + L(b.b) + ",errno " + L(b.err) + ")";
                break;
            }
    if(!o.violated && o.st.races) {
        o.violated = true; o.cls = "race";
        const tsl_race &rc = o.st.race[0];
        char b[200]; snprintf(b, sizeof b, "%s@+0x%lx", rc.is_static ? "static" : "heap", (unsigned long)rc.addr_rel);
        o.site = b;
        static const char *kn[] = {"write-write", "write-read", "read-write"};
        snprintf(b, sizeof b, "%s race between threads %d and %d, pcs +0x%lx / +0x%lx, %llu racy accesses", kn[rc.kind], rc.tid1, rc.tid2, (unsigned long)rc.pc1, (unsigned long)rc.pc2, (unsigned long long)o.st.races);
        o.detail = b;
    }
    return o;
}

// ---------------------------------------------------------------- run / replay
static uint64_t g_verif_seed = 1;

static void solo_reference(Case &c, std::vector<std::vector<OpResult>> &solo, uint64_t &steps) {
    // every script alone, one after the other, in a simulator thread of its own (no other thread exists)
    solo.clear(); steps = 0;
    for(int t = 0; t < c.nthreads; t++) {
        tsl_config cfg; cfg.sched_seed = 1; cfg.policy = 0; cfg.inv_p = 1u << 30; cfg.pct_d = 0; cfg.expected_steps = 1;
        tsl_stats st; void *arg = &c.threads[(size_t)t];
        tsl_run(1, thread_main, &arg, &cfg, &st);
        solo.push_back(c.threads[(size_t)t].results);
        steps += st.steps;
    }
}

static std::string commented(const std::string &t) { std::string o; std::istringstream in(t); std::string l; while(std::getline(in, l)) o += "# " + l + "\n"; return o; }

static bool exec_case(uint64_t run_seed, int only_sched, unsigned nsched, bool report, std::string *sig_out = nullptr, std::string *detail_out = nullptr) {
    Case c;
    {   // until a schedule is published, a death is attributed to "the whole case"
        char hb0[320];
        snprintf(hb0, sizeof hb0, "property C19\nprogram %s\nverif_seed %llu\nrun_seed %llu\nsched all\n", SIM_PROGRAM, (unsigned long long)g_verif_seed, (unsigned long long)run_seed);
        status_head(hb0); status_ops("");
    }
    // stage G: build the case (values, encodings, scripts) in a child; the parent only keeps bytes
    {
        ChildResult g = in_child([&](Buf &o) { Case cc; if(!build_case(run_seed, cc)) { o.u64(0); return; } o.u64(1); put_case(o, cc); });
        if(!g.ok) { G.add("c19.skip.generator_died"); return false; }
        if(!g.out.g64() || !get_case(g.out, c)) { G.add("c19.skip.nocase"); return false; }
    }
    std::vector<std::vector<OpResult>> solo; uint64_t steps = 0;
    // stage R: every script alone, twice (the reference must be repeatable, or the oracle would be meaningless)
    {
        ChildResult r = in_child([&](Buf &o) {
            std::vector<std::vector<OpResult>> a, b; uint64_t s1 = 0, s2 = 0;
            solo_reference(c, a, s1); solo_reference(c, b, s2);
            bool same = a.size() == b.size();
            for(size_t t = 0; same && t < a.size(); t++) for(size_t i = 0; i < a[t].size(); i++) if(!(a[t][i] == b[t][i])) {
                same = false;
                if(getenv("SIM_C19_DEBUG")) fprintf(stderr, "unstable reference: run_seed %llu thread %zu op %zu %s (%d,%ld,%llx,%d) vs (%d,%ld,%llx,%d)\n", (unsigned long long)run_seed, t, i, OPN[c.threads[t].script[i].kind],
                    a[t][i].a, a[t][i].b, (unsigned long long)a[t][i].h, a[t][i].err, b[t][i].a, b[t][i].b, (unsigned long long)b[t][i].h, b[t][i].err);
            }
            o.u64(same ? 1 : 0); o.u64(s1); put_results(o, a);
        });
        if(!r.ok) {
            bool anyv = true;
            std::string sg = "C19/" + death_text(r.status) + "/solo-reference";
            if(report) report_violation("C19", sg, "the process died while running the scripts one after the other", "property C19\nprogram " + std::string(SIM_PROGRAM) + "\nverif_seed " + std::to_string(g_verif_seed) + "\nrun_seed " + std::to_string(run_seed) + "\nsched all\n");
            if(sig_out && sig_out->empty()) { *sig_out = sg; if(detail_out) *detail_out = "died in the solo reference"; }
            return anyv;
        }
        if(!r.out.g64()) { G.add("c19.skip.unstable_reference"); if(getenv("SIM_C19_DEBUG")) fprintf(stderr, "%s", describe(c).c_str()); return false; }
        steps = r.out.g64(); get_results(r.out, solo);
    }
    G.add("c19.cases");
    G.add("c19.threads", (uint64_t)c.nthreads);
    bool any = false;
    for(unsigned s = 0; s < nsched; s++) {
        if(only_sched >= 0 && (int)s != only_sched) continue;
        uint64_t ss = run_seed; ss ^= 0xabcdef12345ULL * (s + 1); ss = splitmix64(ss);
        char hb[512];
        snprintf(hb, sizeof hb, "property C19\nprogram %s\nverif_seed %llu\nrun_seed %llu\nsched %u\n", SIM_PROGRAM, (unsigned long long)g_verif_seed, (unsigned long long)run_seed, s);
        status_head(hb); status_ops("");
        status_progress();
        // stage S: this schedule, in a child with pristine library statics
        SchedOutcome o;
        ChildResult sc = in_child([&](Buf &ob) {
            SchedOutcome oc = run_schedule(c, solo, ss, steps);
            ob.u64(oc.violated ? 1 : 0); ob.str(oc.cls); ob.str(oc.detail); ob.str(oc.site); ob.bytes(&oc.st, sizeof oc.st);
        });
        if(!sc.ok) { o.violated = true; o.cls = death_text(sc.status); o.site = "schedule"; o.detail = "the process died while the threads were running"; memset(&o.st, 0, sizeof o.st); G.add("c19.schedule_deaths"); }
        else { o.violated = sc.out.g64() != 0; o.cls = sc.out.gstr(); o.detail = sc.out.gstr(); o.site = sc.out.gstr(); Bytes stb = sc.out.gbytes(); memset(&o.st, 0, sizeof o.st); if(stb.size() == sizeof o.st) memcpy(&o.st, stb.data(), sizeof o.st); }
        EV.ev("sched %u switches=%llu steps=%llu races=%llu ih=%016llx", s, (unsigned long long)o.st.switches, (unsigned long long)o.st.steps, (unsigned long long)o.st.races, (unsigned long long)o.st.interleaving_hash);
        G.add("c19.schedules"); G.add("c19.fired.preemptions", o.st.switches); G.add("c19.switch_points", o.st.steps);
        G.add("c19.instrumented_accesses", o.st.accesses); G.add("c19.libc_range_calls", o.st.range_calls);
        G.add("c19.static_storage_writes_by_library", o.st.static_writes);
        if(o.st.switches) G.seen("c19.interleavings", o.st.interleaving_hash);
        for(int i = 0; i < o.st.n_adjacent; i++) G.seen("c19.adjacent_function_pairs", o.st.adjacent[i][0] * 1000003ULL ^ o.st.adjacent[i][1]);
        if(o.violated) {
            any = true;
            if(report) report_violation("C19", "C19/" + o.cls + "/" + o.site, o.detail, std::string(hb) + commented(describe(c).substr(0, 1500)));
            if(sig_out && sig_out->empty()) { *sig_out = "C19/" + o.cls + "/" + o.site; if(detail_out) *detail_out = o.detail; }
        }
        if(G.samples.size() < 3 && s == 0) G.samples.push_back(std::string(hb) + describe(c));
    }
    return any;
}

static std::string slurp(const char *path) { std::ifstream in(path, std::ios::binary); std::stringstream ss; ss << in.rdbuf(); return ss.str(); }

int main(int argc, char **argv) {
    std::string replay, status, distinct_dir, tag = "0";
    uint64_t seed = 1, start = 0, stride = 1, count = 0; bool thorough = false, runlog = false; double budget_s = 0;
    for(int i = 1; i < argc; i++) {
        std::string a = argv[i];
        auto nx = [&]() -> const char * { return i + 1 < argc ? argv[++i] : ""; };
        if(a == "--seed") seed = strtoull(nx(), 0, 10);
        else if(a == "--start") start = strtoull(nx(), 0, 10);
        else if(a == "--stride") stride = strtoull(nx(), 0, 10);
        else if(a == "--count") count = strtoull(nx(), 0, 10);
        else if(a == "--tier") thorough = std::string(nx()) == "thorough";
        else if(a == "--replay") replay = nx();
        else if(a == "--status") status = nx();
        else if(a == "--values") g_values_dir = nx();
        else if(a == "--distinct-dir") distinct_dir = nx();
        else if(a == "--tag") tag = nx();
        else if(a == "--runlog") runlog = true;
        else if(a == "--budget") budget_s = atof(nx());
        else if(a == "--prop" || a == "--wd") nx();
        else if(a == "--log") {}
        else { fprintf(stderr, "unknown arg %s\n", a.c_str()); return 64; }
    }
    g_verif_seed = seed;
    if(!status.empty()) status_open(status.c_str());
    if(!replay.empty()) {
        Plan p; std::string err;
        if(!Plan::parse(slurp(replay.c_str()), p, err)) return 64;
        uint64_t rs = strtoull(p.get("run_seed", "0").c_str(), 0, 10);
        int s = p.get("sched") == "all" ? -1 : (int)p.getl("sched", 0);
        bool v = false; std::string sig, detail;
        v = exec_case(rs, s, 16u, false, &sig, &detail);
        printf("{\"type\":\"replay\",\"property\":\"C19\",\"violated\":%s,\"skipped\":false,\"sig\":\"%s\",\"detail\":\"%s\",\"log_hash\":\"%016llx\"}\n",
               v ? "true" : "false", json_escape(sig).c_str(), json_escape(detail).c_str(), (unsigned long long)EV.h);
        return v ? 1 : 0;
    }
    struct timespec t0, t1; clock_gettime(CLOCK_MONOTONIC, &t0);
    unsigned nsched = thorough ? 16 : 16;
    for(uint64_t i = start; i < count; i += stride) {
        uint64_t rs = derive_run_seed(seed, "C19", SIM_PROGRAM, i);
        status_index(i);
        EV.reset(); EV.ev("seed %llu", (unsigned long long)rs);
        exec_case(rs, -1, nsched, true);
        G.log_hash += EV.h; G.add("runs");
        if(runlog) { printf("RUN %llu %016llx\n", (unsigned long long)i, (unsigned long long)EV.h); fflush(stdout); }
        if(budget_s > 0) { clock_gettime(CLOCK_MONOTONIC, &t1); if((t1.tv_sec - t0.tv_sec) + (t1.tv_nsec - t0.tv_nsec) / 1e9 > budget_s) { G.add("truncated_by_budget"); break; } }
    }
    clock_gettime(CLOCK_MONOTONIC, &t1);
    if(!distinct_dir.empty()) for(auto &kv : G.distinct) {
        std::string path = distinct_dir + "/distinct." + kv.first + "." + SIM_PROGRAM + "." + tag;
        FILE *f = fopen(path.c_str(), "wb"); if(!f) continue;
        std::vector<uint64_t> v(kv.second.begin(), kv.second.end()); if(!v.empty()) fwrite(v.data(), 8, v.size(), f); fclose(f);
    }
    printf("{\"type\":\"summary\",\"property\":\"C19\",\"program\":\"%s\",\"wall_s\":%.3f,\"log_hash\":\"%016llx\",\"counters\":{", SIM_PROGRAM,
           (t1.tv_sec - t0.tv_sec) + (t1.tv_nsec - t0.tv_nsec) / 1e9, (unsigned long long)G.log_hash);
    bool first = true;
    for(auto &kv : G.n) { printf("%s\"%s\":%llu", first ? "" : ",", json_escape(kv.first).c_str(), (unsigned long long)kv.second); first = false; }
    printf("},\"distinct\":{"); first = true;
    for(auto &kv : G.distinct) { printf("%s\"%s\":%zu", first ? "" : ",", json_escape(kv.first).c_str(), kv.second.size()); first = false; }
    printf("},\"violations\":{"); first = true;
    for(auto &kv : g_violation_counts) { printf("%s\"%s\":%llu", first ? "" : ",", json_escape(kv.first).c_str(), (unsigned long long)kv.second); first = false; }
    printf("},\"samples\":[");
    for(size_t i = 0; i < G.samples.size(); i++) printf("%s\"%s\"", i ? "," : "", json_escape(G.samples[i]).c_str());
    printf("]}\n");
    return 0;
}
