// Generic descriptor / structure walker (uses only the public descriptor tables).
#ifndef SIM_WALKER_H
#define SIM_WALKER_H
#include "core.h"

enum Kind {
    K_SEQUENCE, K_SET, K_CHOICE, K_SET_OF, K_SEQUENCE_OF, K_OPEN_TYPE, K_ANY,
    K_OCTET_STRING, K_BIT_STRING, K_STRING /* restricted strings, times: OCTET_STRING_t layout */,
    K_INTEGER, K_ENUMERATED, K_REAL, K_OID /* OBJECT IDENTIFIER, RELATIVE-OID */,
    K_NATIVE_INTEGER, K_NATIVE_ENUMERATED, K_NATIVE_REAL, K_BOOLEAN, K_NULL, K_UNKNOWN
};
Kind kind_of(const asn_TYPE_descriptor_t *td);
const char *kind_name(Kind k);
inline bool kind_constructed(Kind k) { return k <= K_OPEN_TYPE; }
inline bool kind_octets(Kind k) { return k == K_ANY || k == K_OCTET_STRING || k == K_BIT_STRING || k == K_STRING; }
inline bool kind_primbuf(Kind k) { return k == K_INTEGER || k == K_ENUMERATED || k == K_REAL || k == K_OID; }

// No NULL random_fill reachable from td (SEQUENCE_random_fill does not test for it).
bool fillable(const asn_TYPE_descriptor_t *td);
bool reaches_kind(const asn_TYPE_descriptor_t *td, Kind k);
bool is_recursive(const asn_TYPE_descriptor_t *td);
// 0 if unknown
size_t struct_size_of(const asn_TYPE_descriptor_t *td);
// pointer to asn_struct_ctx_t inside st, or NULL if the kind has none
asn_struct_ctx_t *ctx_of(const asn_TYPE_descriptor_t *td, void *st);

struct Node {
    const asn_TYPE_descriptor_t *td;
    void *ptr;                        // the member's structure
    void **slot;                      // if reached through a pointer (ATF_POINTER / set element): where the pointer is stored
    const asn_TYPE_descriptor_t *parent_td;
    void *parent;
    const asn_TYPE_member_t *memb;    // member entry in parent (NULL for root)
    int index;                        // member index / element index
    int depth;
};
// pre-order walk over present nodes; visitor returns false to prune children
void walk(const asn_TYPE_descriptor_t *td, void *st, const std::function<bool(const Node &)> &visit, int max_nodes = 200000);

// resumption point description of the deepest in-progress node: "<KIND>:p<phase>s<step-class>" or "" if none
std::string deepest_in_progress(const asn_TYPE_descriptor_t *td, void *st);
// true if some string node has buf == NULL (compare_struct must then not be called, DESIGN 3.1)
bool has_null_buf_string(const asn_TYPE_descriptor_t *td, void *st);

#endif
