// C04: decoding damaged and truncated streams is memory-safe, terminates and reports consistently.  DESIGN 5.4
#include "engine.h"
#include "walker.h"
#include "transport.h"
#include "ber.h"
#include <algorithm>
extern "C" {
#include <constraints.h>
#include <per_decoder.h>
}

namespace {

struct Verdict { bool violated = false; std::string cls, site, detail; };

static int null_sink(const void *, size_t, void *) { return 0; }
static int hash_sink(const void *b, size_t n, void *key) { uint64_t *h = (uint64_t *)key; *h = fnv1a(b, n, *h); if(getenv("SIM_C04_DUMP")) { fwrite(b, 1, n, stderr); } return 0; }

struct LeakInfo { size_t blocks = 0, bytes = 0; uintptr_t site = 0; };
static void leak_cb(void *p, size_t sz, int, void *key) { LeakInfo *li = (LeakInfo *)key; li->blocks++; li->bytes += sz; if(!li->site) li->site = sim_alloc_site_of(p); }
static std::string hexs(uintptr_t v) { char b[32]; snprintf(b, sizeof b, "+0x%lx", (unsigned long)v); return b; }

// print, validate, re-encode x5, free; ledger must be empty afterwards
static void post_ops(asn_TYPE_descriptor_t *td, void *st, Syntax sy, Verdict &v, uint64_t *obs) {
    uint64_t hz = 0xcbf29ce484222325ULL; if(!obs) obs = &hz;
    if(st) {
        int rc = 0;
        if(!libcall([&] { rc = td->op->print_struct(td, st, 1, hash_sink, obs); })) { v.violated = true; v.cls = "abort"; v.site = "print:" + abort_site(); v.detail = "assertion while printing the decoded structure"; }
        char eb[128]; size_t el = sizeof eb;
        if(!v.violated && !libcall([&] { rc = asn_check_constraints(td, st, eb, &el); })) { v.violated = true; v.cls = "abort"; v.site = "check:" + abort_site(); v.detail = "assertion in asn_check_constraints"; }
        static const Syntax encs[] = {SY_DER, SY_OER, SY_UPER, SY_XER, SY_CXER};
        for(Syntax es : encs) {
            if(v.violated) break;
            asn_enc_rval_t er;
            if(!libcall([&] { er = asn_encode(0, syntax_ats(es), td, st, hash_sink, obs); *obs = fnv1a(&er.encoded, sizeof er.encoded, *obs); })) { v.violated = true; v.cls = "abort"; v.site = std::string("encode-") + syntax_name(es) + ":" + abort_site(); v.detail = "assertion while re-encoding the decoded structure"; }
        }
        if(v.violated) { sim_alloc_free_all_live(); return; }
        if(!libcall([&] { ASN_STRUCT_FREE(*td, st); })) { v.violated = true; v.cls = "abort"; v.site = "free:" + abort_site(); v.detail = "assertion in ASN_STRUCT_FREE"; sim_alloc_free_all_live(); return; }
    }
    if(sim_alloc_bad_free_count()) { v.violated = true; v.cls = "bad-free"; v.site = std::string(syntax_name(sy)) + "/" + kind_name(kind_of(td)); v.detail = "double or foreign free while disposing of the decoded structure"; }
    else if(sim_alloc_live_count()) { LeakInfo li; sim_alloc_foreach_live(leak_cb, &li);
        v.violated = true; v.cls = "leak"; v.site = std::string(syntax_name(sy)) + "/" + kind_name(kind_of(td));
        v.detail = L((long)li.blocks) + " block(s), " + L((long)li.bytes) + " bytes still allocated after ASN_STRUCT_FREE, allocation site " + hexs(li.site); }
    sim_alloc_free_all_live();
}

// ops: deliver N | deliver rest | corrupt off=<o> xor=<b> | uper skip=<s> unused=<u>
static Verdict exec_plan(asn_TYPE_descriptor_t *td, Syntax sy, Bytes S, const std::vector<Op> &ops, int *last_rc, size_t *total_consumed, uint64_t *obs = nullptr) {
    Verdict v;
    sim_alloc_reset();
    void *st = nullptr;
    size_t off = 0, avail = 0;
    int code = RC_WMORE;
    bool done = false;
    for(const Op &op : ops) {
        if(done) break;
        status_progress();
        if(op.name == "corrupt") {
            if(S.empty()) continue;
            size_t o = (size_t)op.attrl("off", 0) % S.size();
            S[o] ^= (uint8_t)(op.attrl("xor", 1) | 1);
            G.add("c04.fired.torn_retransmission");
            continue;
        }
        if(op.name == "uper") {
            int skip = (int)op.attrl("skip", 0) & 7, unused = (int)op.attrl("unused", 0) & 7;
            uint8_t *copy = (uint8_t *)malloc(S.size() ? S.size() : 1);
            if(S.size()) memcpy(copy, S.data(), S.size());
            asn_dec_rval_t rv; rv.code = RC_FAIL; rv.consumed = 0;
            bool ok = libcall([&] { rv = uper_decode(0, td, &st, copy, S.size(), skip, unused); });
            free(copy);
            EV.ev("uper skip=%d unused=%d n=%zu -> %s %zu", skip, unused, S.size(), ok ? rc_name(rv.code) : "ABORT", ok ? rv.consumed : 0);
            if(!ok) { v.violated = true; v.cls = "abort"; v.site = "decode:" + abort_site(); v.detail = "assertion inside uper_decode"; sim_alloc_free_all_live(); return v; }
            code = rv.code;
            if(rv.code != RC_OK && rv.code != RC_WMORE && rv.code != RC_FAIL) { v.violated = true; v.cls = "bad-rc"; v.detail = "return code " + L(rv.code); }
            else if(rv.consumed > 8 * S.size()) { v.violated = true; v.cls = "overconsume"; v.site = "UPER"; v.detail = "consumed " + L((long)rv.consumed) + " bits of " + L((long)(8 * S.size())); }
            done = true; off = rv.consumed;
            continue;
        }
        if(op.name != "deliver") continue;
        long d = (op.args.empty() || op.args[0] == "rest") ? -1 : op.argl(0);
        if(d < 0 || (size_t)d > S.size() - avail) d = (long)(S.size() - avail);
        avail += (size_t)d;
        DecResult r = decode_call(td, sy, &st, S.data() + off, avail - off);
        EV.ev("deliver %ld avail %zu off %zu -> %s %zu", d, avail, off, r.aborted ? "ABORT" : rc_name(r.code), r.consumed);
        if(r.aborted) { v.violated = true; v.cls = "abort"; v.site = "decode:" + abort_site(); v.detail = "assertion inside the decoder"; sim_alloc_free_all_live(); return v; }
        code = r.code;
        if(r.code != RC_OK && r.code != RC_WMORE && r.code != RC_FAIL) { v.violated = true; v.cls = "bad-rc"; v.site = syntax_name(sy); v.detail = "return code " + L(r.code); break; }
        if(r.consumed > avail - off) { v.violated = true; v.cls = "overconsume"; v.site = std::string(syntax_name(sy)) + "/" + kind_name(kind_of(td));
            v.detail = "consumed " + L((long)r.consumed) + " > size " + L((long)(avail - off)); break; }
        off += r.consumed;
        if(r.code != RC_WMORE) done = true;
        else G.add("c04.fired.chunk_boundary_resumed");
    }
    if(last_rc) *last_rc = code;
    if(total_consumed) *total_consumed = off;
    if(v.violated) { sim_alloc_free_all_live(); return v; }
    if(obs) { *obs = fnv1a(&code, sizeof code, *obs); *obs = fnv1a(&off, sizeof off, *obs); }
    post_ops(td, st, sy, v, obs);
    return v;
}

// The second execution of a plan fills fresh heap memory with the complement of the first pattern (0xA5 -> 0x5A: every bit
// differs, both non-zero) or with zeros (what a fresh page holds: "truthy" versus "falsy" garbage), chosen by the plan's hash.
static unsigned char second_fill(const std::string &plan) { return (hash_str(plan) & 1) ? 0x5A : 0x00; }

static std::string mk_sig(const Verdict &v) { return "C04/" + v.cls + "/" + v.site; }
static std::string ops_str(const std::vector<Op> &ops) { std::string s; for(auto &o : ops) s += o.str(); return s; }

static void c04_run(uint64_t seed, uint64_t index, bool thorough) {
    ValueChoice vc = choose_value(seed, 200);
    if(!vc.st) { G.add("c04.skip.novalue"); return; }
    asn_TYPE_descriptor_t *td = vc.td;
    Rng r = stream(seed, "faults"), rs = stream(seed, "schedule");
    // an encoding of another type for splices
    std::map<int, Bytes> enc;
    static const Syntax syns[] = {SY_DER, SY_OER, SY_XER, SY_UPER};
    for(Syntax sy : syns) { EncResult e = encode_to_vec(td, vc.st, sy); if(!e.aborted && e.encoded >= 0 && e.out.size() <= 100000) enc[sy] = e.out; }
    Bytes other;
    { Rng ro = stream(seed, "other"); asn_TYPE_descriptor_t *ot = choose_type(ro);
      if(fillable(ot)) { void *ov = random_value(ot, ro.next(), 60); if(ov) { EncResult e = encode_to_vec(ot, ov, r.chance(1, 2) ? SY_DER : SY_XER); if(e.encoded >= 0) other = e.out; free_struct(ot, ov); } } }
    BerHints hints; ber_collect_hints(td, vc.st, hints);
    free_struct(td, vc.st);
    sim_alloc_free_all_live();
    if(enc.empty()) { G.add("c04.skip.unencodable"); return; }
    unsigned variants = thorough ? 48 : 16;
    for(auto &kv : enc) {
        Syntax sy = (Syntax)kv.first;
        for(unsigned q = 0; q < variants; q++) {
            Bytes D = kv.second;
            std::vector<std::string> applied;
            if(sy == SY_DER && r.chance(1, 3)) { Bytes var; VariantStats vs; Rng rv(r.next()); if(ber_variant(D, rv, var, vs, &hints)) { D = var; G.add("c04.variant.segmented", vs.segmented); } }
            if(q == 0) { /* truncation at a seeded offset only */ if(!D.empty()) D.resize((size_t)r.below(D.size())); applied.push_back("truncate"); }
            else transport_damage(D, r, &other, applied, 1 + (unsigned)r.below(4));
            if(D.size() > 131072) D.resize(131072);
            for(auto &a : applied) G.add("c04.fired." + a);
            Plan head;
            head.set("property", "C04"); head.set("program", SIM_PROGRAM); head.set("type", td->name); head.set("syntax", syntax_name(sy));
            { std::string fl; for(auto &a : applied) fl += (fl.empty() ? "" : ",") + a; head.set("faults", fl); }
            head.set("stream", to_hex(D));
            std::vector<Op> ops;
            if(sy == SY_UPER) {
                if(rs.chance(1, 3)) { Op o = mkop("uper"); o.attrs["skip"] = L((long)rs.below(8)); o.attrs["unused"] = L((long)rs.below(8)); ops.push_back(o); }
                else ops.push_back(mkop("deliver", {"rest"}));
            } else if(rs.chance(1, 2)) {
                ops.push_back(mkop("deliver", {"rest"}));
            } else {
                size_t left = D.size(); unsigned mode = (unsigned)rs.below(3);
                while(left > 0 && ops.size() < 400) {
                    size_t s = mode == 0 ? 1 + rs.below(3) : mode == 1 ? rs.geom(64) : 1 + rs.below(left);
                    if(D.size() > 2048) s *= (D.size() / 512);
                    if(s > left) s = left;
                    ops.push_back(mkop("deliver", {L((long)s)}));
                    left -= s;
                    if(rs.chance(1, 10) && !D.empty()) { Op c = mkop("corrupt"); c.attrs["off"] = L((long)rs.below(D.size())); c.attrs["xor"] = L((long)(1 + rs.below(255))); ops.push_back(c); }
                }
                ops.push_back(mkop("deliver", {"rest"}));
            }
            std::string hs = head.head_str(), os = ops_str(ops);
            status_head(hs); status_ops(os);
            plan_dump_maybe(hs + os);
            int rc = 0; size_t cons = 0;
            // everything observable (codes, consumed, print, re-encodings) must not depend on what fresh heap memory contains:
            // the plan runs twice, with library allocations pre-filled with two different patterns
            uint64_t oa = 0xcbf29ce484222325ULL, ob = 0xcbf29ce484222325ULL;
            sim_alloc_fill(1, 0xA5);
            Verdict v = exec_plan(td, sy, D, ops, &rc, &cons, &oa);
            if(!v.violated) {
                sim_alloc_fill(1, second_fill(hs + os));
                Verdict v2 = exec_plan(td, sy, D, ops, nullptr, nullptr, &ob);
                if(v2.violated) v = v2;
                else if(oa != ob) { v.violated = true; v.cls = "uninitialised-memory-observable"; v.site = std::string(syntax_name(sy)) + "/" + kind_name(kind_of(td));
                    v.detail = "return codes / print / re-encodings of the decoded structure change with the contents of freshly allocated memory"; }
                G.add("c04.decodes");
            }
            sim_alloc_fill(0, 0);
            G.add("c04.decodes");
            G.add(std::string("c04.rc.") + rc_name(rc));
            G.add(std::string("c04.syntax.") + syntax_name(sy));
            if(D != kv.second) G.seen("c04.damaged_streams", hash_str(hs));
            if(v.violated) report_violation("C04", mk_sig(v), v.detail, hs + os);
            if(G.samples.size() < 4 && (index + q) % 11 == 0) G.samples.push_back(hs + os.substr(0, 400));
        }
    }
}

static ReplayResult c04_replay(const Plan &p) {
    ReplayResult rr;
    asn_TYPE_descriptor_t *td = pdu_by_name(p.get("type"));
    Syntax sy; Bytes S;
    if(!td || !syntax_from_name(p.get("syntax"), sy) || !from_hex(p.get("stream"), S)) { rr.skipped = true; rr.detail = "unusable plan"; return rr; }
    uint64_t oa = 0xcbf29ce484222325ULL, ob = 0xcbf29ce484222325ULL;
    sim_alloc_fill(1, 0xA5);
    Verdict v = exec_plan(td, sy, S, p.ops, nullptr, nullptr, &oa);
    if(!v.violated) {
        for(unsigned char fb : {(unsigned char)0x5A, (unsigned char)0x00}) {      // a replay tries both second patterns
            if(v.violated) break;
            ob = 0xcbf29ce484222325ULL;
            sim_alloc_fill(1, fb);
            Verdict v2 = exec_plan(td, sy, S, p.ops, nullptr, nullptr, &ob);
            if(v2.violated) v = v2;
            else if(oa != ob) { v.violated = true; v.cls = "uninitialised-memory-observable"; v.site = std::string(syntax_name(sy)) + "/" + kind_name(kind_of(td));
                v.detail = "return codes / print / re-encodings of the decoded structure change with the contents of freshly allocated memory"; }
        }
    }
    sim_alloc_fill(0, 0);
    rr.violated = v.violated;
    if(v.violated) { rr.sig = mk_sig(v); rr.detail = v.detail; }
    return rr;
}

} // namespace

Engine engine_c04 = {"C04", c04_run, c04_replay, nullptr};
