/*
 * tsanlite: our own runtime behind clang's -fsanitize=thread instrumentation.
 *  - every instrumented memory access is a scheduling point of a one-runnable-at-a-time scheduler
 *    (real pthreads, baton passed through semaphores, next holder chosen by the seeded schedule stream);
 *  - a vector-clock race detector over a shadow map fed by the same accesses and by wrapped libc range functions.
 * DESIGN 5.6.
 */
#define _GNU_SOURCE
#include "tsanlite.h"
#include <pthread.h>
#include <semaphore.h>
#include <stdlib.h>
#include <string.h>
#include <stdio.h>
#include <stdarg.h>
#include <malloc.h>
#include <unistd.h>
#include <sys/mman.h>

#define MAXT TSL_MAXT

void *__real_calloc(size_t, size_t);
void __real_free(void *);

struct thr {
    sem_t sem;
    char *stk_lo, *stk_hi;
    int state;                 /* 0 unused, 1 runnable, 2 done */
    uint64_t steps;
    uint32_t vc[MAXT];
    int prio;
    uintptr_t fstack[64]; int fdepth;
    pthread_t th;
    void *(*fn)(void *); void *arg;
};
extern char __executable_start, _end;
static struct thr T[MAXT];
static sem_t main_sem;
static __thread int t_id = -1;
static __thread int t_busy;            /* inside the runtime: do not recurse */
static volatile int g_active;
static int g_nthreads;
static int g_current = -1;

/* schedule stream */
static uint64_t rs[2];
static uint64_t rnd(void) {
    uint64_t s0 = rs[0], s1 = rs[1], r = s0 + s1;
    s1 ^= s0; rs[0] = ((s0 << 24) | (s0 >> 40)) ^ s1 ^ (s1 << 16); rs[1] = (s1 << 37) | (s1 >> 27);
    return r;
}
static void rseed(uint64_t s) {
    uint64_t z = s;
    for(int i = 0; i < 2; i++) { z += 0x9e3779b97f4a7c15ULL; uint64_t x = z; x = (x ^ (x >> 30)) * 0xbf58476d1ce4e5b9ULL; x = (x ^ (x >> 27)) * 0x94d049bb133111ebULL; rs[i] = x ^ (x >> 31); }
    if(!rs[0] && !rs[1]) rs[0] = 1;
}

static int g_policy;                   /* 0 random preemption, 1 PCT */
static uint32_t g_inv_p;               /* mean steps between preemptions */
static int64_t g_countdown;
static uint64_t g_step;
static uint64_t g_change[8]; static int g_nchange; static int g_low;
static struct tsl_stats S;

static int64_t next_gap(void) {        /* geometric-ish with mean g_inv_p */
    uint64_t r = rnd();
    int64_t g = 1 + (int64_t)(r % (2 * (uint64_t)g_inv_p));
    return g;
}

static void ihash(uint64_t v) { S.interleaving_hash ^= v + 0x9e3779b97f4a7c15ULL + (S.interleaving_hash << 6) + (S.interleaving_hash >> 2); }

static int pick_other(int me) {
    int cand[MAXT], n = 0;
    for(int i = 0; i < g_nthreads; i++) if(i != me && T[i].state == 1) cand[n++] = i;
    if(!n) return -1;
    if(g_policy == 1) { int best = cand[0]; for(int i = 1; i < n; i++) if(T[cand[i]].prio > T[best].prio) best = cand[i]; return best; }
    return cand[rnd() % (uint64_t)n];
}

static void switch_to(int me, int next) {
    S.switches++;
    ihash(((uint64_t)me << 56) ^ ((uint64_t)next << 48) ^ T[me].steps);
    if(T[me].fdepth > 0 && T[next].fdepth > 0) {
        uint64_t a = T[me].fstack[T[me].fdepth - 1] - (uintptr_t)&__executable_start, b = T[next].fstack[T[next].fdepth - 1] - (uintptr_t)&__executable_start;
        if(S.n_adjacent < TSL_MAXADJ) { S.adjacent[S.n_adjacent][0] = a; S.adjacent[S.n_adjacent][1] = b; S.n_adjacent++; }
    }
    g_current = next;
    sem_post(&T[next].sem);
    sem_wait(&T[me].sem);
}

void tsl_sched_point(void) {
    if(!g_active || t_id < 0 || t_busy) return;
    int me = t_id;
    T[me].steps++; g_step++;
    if(g_policy == 0) {
        if(--g_countdown > 0) return;
        g_countdown = next_gap();
        int n = pick_other(me);
        if(n < 0) return;
        t_busy = 1; switch_to(me, n); t_busy = 0;
    } else {
        for(int i = 0; i < g_nchange; i++) if(g_change[i] == g_step) { T[me].prio = --g_low; }
        int best = me;
        for(int i = 0; i < g_nthreads; i++) if(T[i].state == 1 && T[i].prio > T[best].prio) best = i;
        if(best != me) { t_busy = 1; switch_to(me, best); t_busy = 0; }
    }
}

/* ---------------------------------------------------------------- shadow map */
struct cell { uintptr_t key; uint32_t w_clk; uint8_t w_tid; uint8_t w_mask; uint8_t r_mask[MAXT]; uint32_t r_clk[MAXT]; uintptr_t w_pc; uintptr_t r_pc[MAXT]; };
static struct cell *sh; static size_t sh_cap, sh_used;
static uint32_t sh_gen;       /* bumping the generation forgets everything at once */

extern char __executable_start, _end;

static size_t hk(uintptr_t k) { uint64_t x = k; x ^= x >> 33; x *= 0xff51afd7ed558ccdULL; x ^= x >> 29; return (size_t)x; }
static struct cell *sh_get(uintptr_t key, int create) {
    if(!sh_cap) { sh_cap = 1 << 16; sh = __real_calloc(sh_cap, sizeof *sh); }
    size_t h = hk(key) & (sh_cap - 1);
    while(sh[h].key) { if(sh[h].key == key) return &sh[h]; h = (h + 1) & (sh_cap - 1); }
    if(!create) return 0;
    if((sh_used + 1) * 2 > sh_cap) {
        size_t oc = sh_cap; struct cell *os = sh;
        sh_cap *= 2; sh = __real_calloc(sh_cap, sizeof *sh); sh_used = 0;
        for(size_t i = 0; i < oc; i++) if(os[i].key) { size_t g = hk(os[i].key) & (sh_cap - 1); while(sh[g].key) g = (g + 1) & (sh_cap - 1); sh[g] = os[i]; sh_used++; }
        __real_free(os);
        return sh_get(key, 1);
    }
    memset(&sh[h], 0, sizeof sh[h]); sh[h].key = key; sh[h].w_tid = 0xff; sh_used++;
    return &sh[h];
}
static void sh_reset(void) { if(sh) memset(sh, 0, sh_cap * sizeof *sh); sh_used = 0; }

static uintptr_t top_pc(int t) { return T[t].fdepth > 0 ? T[t].fstack[T[t].fdepth - 1] : 0; }

static void report_race(uintptr_t addr, int kind, int t1, uintptr_t pc1, int t2, uintptr_t pc2) {
    S.races++;
    if(S.n_race_reports < TSL_MAXRACE) {
        struct tsl_race *r = &S.race[S.n_race_reports++];
        r->addr_rel = (addr >= (uintptr_t)&__executable_start && addr < (uintptr_t)&_end) ? addr - (uintptr_t)&__executable_start : 0;
        r->is_static = r->addr_rel != 0;
        r->kind = kind; r->tid1 = t1; r->tid2 = t2;
        r->pc1 = pc1 ? pc1 - (uintptr_t)&__executable_start : 0; r->pc2 = pc2 ? pc2 - (uintptr_t)&__executable_start : 0;
    }
}

static void shadow_access(uintptr_t a, size_t sz, int is_write) {
    int t = t_id;
    uintptr_t pc = top_pc(t);
    if(is_write && a >= (uintptr_t)&__executable_start && a < (uintptr_t)&_end) S.static_writes++;
    while(sz) {
        uintptr_t key = a >> 3; unsigned off = a & 7; unsigned n = 8 - off; if(n > sz) n = (unsigned)sz;
        uint8_t m = (uint8_t)(((1u << n) - 1) << off);
        struct cell *c = sh_get(key | ((uintptr_t)1 << 62), 1);
        if(c->w_tid != 0xff && c->w_tid != t && (c->w_mask & m) && c->w_clk > T[t].vc[c->w_tid])
            report_race(a, is_write ? 0 : 1, c->w_tid, c->w_pc, t, pc);          /* write-write / write-read */
        if(is_write) {
            for(int u = 0; u < g_nthreads; u++)
                if(u != t && (c->r_mask[u] & m) && c->r_clk[u] > T[t].vc[u]) report_race(a, 2, u, c->r_pc[u], t, pc);   /* read-write */
            if(c->w_tid == t) c->w_mask |= m; else c->w_mask = m;
            c->w_tid = (uint8_t)t; c->w_clk = T[t].vc[t]; c->w_pc = pc;
        } else {
            c->r_mask[t] |= m; c->r_clk[t] = T[t].vc[t]; c->r_pc[t] = pc;
        }
        a += n; sz -= n;
    }
}

void tsl_range(const void *p, size_t n, int is_write) {
    if(!g_active || t_id < 0 || t_busy || !n) return;
    char *a = (char *)p;
    if(a >= T[t_id].stk_lo && a < T[t_id].stk_hi) return;
    t_busy = 1; shadow_access((uintptr_t)p, n, is_write); t_busy = 0;
    S.range_calls++;
}
void tsl_forget(const void *p, size_t n) {
    if(!g_active || !n || !sh_used) return;
    int save = t_busy; t_busy = 1;
    uintptr_t a = (uintptr_t)p, e = a + n;
    for(uintptr_t k = a >> 3; k <= (e - 1) >> 3; k++) { struct cell *c = sh_get(k | ((uintptr_t)1 << 62), 0); if(c) { uintptr_t key = c->key; memset(c, 0, sizeof *c); c->key = key; c->w_tid = 0xff; } }
    t_busy = save;
}

static inline void acc(void *addr, size_t sz, int w) {
    if(!g_active || t_id < 0 || t_busy) return;
    char *a = (char *)addr;
    struct thr *t = &T[t_id];
    if(a >= t->stk_lo && a < t->stk_hi) return;              /* own stack and TLS */
    S.accesses++;
    tsl_sched_point();
    t_busy = 1; shadow_access((uintptr_t)addr, sz, w); t_busy = 0;
}

void __tsan_init(void) {}
void __tsan_func_entry(void *pc) { if(t_id >= 0 && g_active) { struct thr *t = &T[t_id]; if(t->fdepth < 64) t->fstack[t->fdepth] = (uintptr_t)pc; t->fdepth++; } }
void __tsan_func_exit(void) { if(t_id >= 0 && g_active) { struct thr *t = &T[t_id]; if(t->fdepth > 0) t->fdepth--; } }
#define RW(n) void __tsan_read##n(void *a) { acc(a, n, 0); } void __tsan_write##n(void *a) { acc(a, n, 1); } \
              void __tsan_unaligned_read##n(void *a) { acc(a, n, 0); } void __tsan_unaligned_write##n(void *a) { acc(a, n, 1); }
RW(1) RW(2) RW(4) RW(8) RW(16)
void __tsan_read_range(void *a, unsigned long n) { tsl_range(a, n, 0); }
void __tsan_write_range(void *a, unsigned long n) { tsl_range(a, n, 1); }
void __tsan_vptr_update(void **a, void *v) { (void)v; acc(a, 8, 1); }
void __tsan_vptr_read(void **a) { acc(a, 8, 0); }

/* happens-before for synchronisation a future fix might add (mutex), so that it is not reported */
struct lockvc { void *m; uint32_t vc[MAXT]; };
static struct lockvc locks[64]; static int nlocks;
static struct lockvc *lock_of(void *m) { for(int i = 0; i < nlocks; i++) if(locks[i].m == m) return &locks[i]; if(nlocks < 64) { memset(&locks[nlocks], 0, sizeof locks[0]); locks[nlocks].m = m; return &locks[nlocks++]; } return &locks[0]; }
int __real_pthread_mutex_lock(pthread_mutex_t *m);
int __real_pthread_mutex_unlock(pthread_mutex_t *m);
int __wrap_pthread_mutex_lock(pthread_mutex_t *m) {
    if(!g_active || t_id < 0 || t_busy) return __real_pthread_mutex_lock(m);
    while(pthread_mutex_trylock(m) != 0) {       /* holder is parked: let it run */
        int n = pick_other(t_id);
        if(n < 0) return __real_pthread_mutex_lock(m);
        t_busy = 1; switch_to(t_id, n); t_busy = 0;
    }
    struct lockvc *l = lock_of(m);
    for(int i = 0; i < MAXT; i++) if(l->vc[i] > T[t_id].vc[i]) T[t_id].vc[i] = l->vc[i];
    return 0;
}
int __wrap_pthread_mutex_unlock(pthread_mutex_t *m) {
    if(g_active && t_id >= 0 && !t_busy) {
        struct lockvc *l = lock_of(m);
        for(int i = 0; i < MAXT; i++) l->vc[i] = T[t_id].vc[i];
        T[t_id].vc[t_id]++;
    }
    return __real_pthread_mutex_unlock(m);
}

/* ---------------------------------------------------------------- threads */
static void *tramp(void *arg) {
    int id = (int)(intptr_t)arg;
    t_id = id;
    sem_wait(&T[id].sem);                    /* parked until the scheduler hands over the baton */
    void *r = T[id].fn(T[id].arg);
    t_busy = 1;
    T[id].state = 2;
    T[id].vc[id]++;
    int n = pick_other(id);
    ihash(((uint64_t)id << 56) ^ 0xEEEE ^ T[id].steps);
    if(n >= 0) { g_current = n; sem_post(&T[n].sem); }
    else sem_post(&main_sem);
    return r;
}

#define STK (1u << 20)
static char *stacks[MAXT];

void tsl_run(int nthreads, void *(*fn)(void *), void **args, const struct tsl_config *cfg, struct tsl_stats *out) {
    memset(&S, 0, sizeof S);
    rseed(cfg->sched_seed);
    g_policy = cfg->policy; g_inv_p = cfg->inv_p ? cfg->inv_p : 64; g_countdown = next_gap(); g_step = 0;
    g_nchange = 0; g_low = 0;
    if(g_policy == 1) { g_nchange = cfg->pct_d > 8 ? 8 : cfg->pct_d; for(int i = 0; i < g_nchange; i++) g_change[i] = 1 + rnd() % (cfg->expected_steps ? cfg->expected_steps : 1000); }
    g_nthreads = nthreads; nlocks = 0;
    sh_reset();
    sem_init(&main_sem, 0, 0);
    for(int i = 0; i < nthreads; i++) {
        memset(&T[i], 0, sizeof T[i]);
        sem_init(&T[i].sem, 0, 0);
        T[i].state = 1; T[i].fn = fn; T[i].arg = args[i];
        T[i].vc[i] = 1;
        T[i].prio = 100 + (int)(rnd() % 1000);
        if(!stacks[i]) stacks[i] = mmap(0, STK, PROT_READ | PROT_WRITE, MAP_PRIVATE | MAP_ANONYMOUS, -1, 0);
        T[i].stk_lo = stacks[i]; T[i].stk_hi = stacks[i] + STK;
        pthread_attr_t at; pthread_attr_init(&at); pthread_attr_setstack(&at, stacks[i], STK);
        pthread_create(&T[i].th, &at, tramp, (void *)(intptr_t)i);
        pthread_attr_destroy(&at);
    }
    g_active = 1;
    int first;
    if(g_policy == 1) { first = 0; for(int i = 1; i < nthreads; i++) if(T[i].prio > T[first].prio) first = i; }
    else first = (int)(rnd() % (uint64_t)nthreads);
    g_current = first;
    sem_post(&T[first].sem);
    sem_wait(&main_sem);
    g_active = 0;
    for(int i = 0; i < nthreads; i++) { pthread_join(T[i].th, 0); sem_destroy(&T[i].sem); S.steps += T[i].steps; }
    sem_destroy(&main_sem);
    *out = S;
}

int tsl_self(void) { return t_id; }
