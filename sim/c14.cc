// C14: structure lifecycle after any history and any single allocation failure.  DESIGN 5.3
#include "engine.h"
#include "walker.h"
#include "transport.h"
#include "ber.h"
#include <cerrno>
#include <climits>
#include <algorithm>
extern "C" {
#include <constraints.h>
#include <asn_SET_OF.h>
#include <OCTET_STRING.h>
}

namespace {

const Syntax DEC_SYNTAXES[] = {SY_DER, SY_OER, SY_XER, SY_UPER, SY_BER};   // SY_BER: a seeded BER variant of the DER encoding (segmented strings, indefinite lengths)
const Syntax ENC_SYNTAXES[] = {SY_DER, SY_OER, SY_UPER, SY_XER, SY_CXER};

struct Subject {
    asn_TYPE_descriptor_t *td = nullptr;
    std::string value_spec;
    bool caller_mode = false;
    std::map<int, Bytes> enc;                 // valid encodings per syntax (absent = not encodable)
    struct RefDec { int rc; size_t consumed; Fingerprint fp; };
    std::map<int, RefDec> ref;                // fresh one-shot decode of enc[sy]
    Plan head;
};

struct Rec { bool ran = false; int rc = 0; size_t consumed = 0; uint64_t fph = 0; ssize_t enc = -2; uint64_t ench = 0; long allocs = 0; long cbs = 0; };

struct Fault { int op = -1; long k = -1; bool sticky = false; int op2 = -1; long k2 = -1; };

struct Verdict { bool violated = false; std::string cls, site, detail; int at_op = -1; };

enum State { S_NULL, S_FRESH, S_PARTIAL, S_DONE };

static uint64_t fp_hash(const Fingerprint &f) {
    uint64_t h = fnv1a(f.der.data(), f.der.size());
    h = fnv1a(f.cxer.data(), f.cxer.size(), h);
    h ^= (f.der_ok ? 1 : 0) | (f.cxer_ok ? 2 : 0);
    return h;
}

static int null_sink(const void *, size_t, void *) { return 0; }
// output callback that starts failing at its k-th invocation (and keeps failing): the encode then fails half-way, and
// whatever temporaries the encoder held at that point must still be released
// application-side per-element free callback of a SET OF / SEQUENCE OF (asn_SET_OF.h: list.free): a probe that only records
// whether it was handed an element that is no longer allocated (i.e. that the library had released already)
static unsigned g_probe_calls, g_probe_on_released;
static void list_free_probe(void *el) { g_probe_calls++; if(!sim_alloc_is_live(el)) g_probe_on_released++; }
struct FailSink { long k; long calls = 0; bool fired = false; uint64_t h = 0xcbf29ce484222325ULL; };
static int fail_sink(const void *b, size_t n, void *key) {
    FailSink *f = (FailSink *)key;
    if(f->calls++ >= f->k) { f->fired = true; return -1; }
    f->h = fnv1a(b, n, f->h);
    return 0;
}

static bool all_zero(const void *p, size_t n) {
    const uint8_t *b = (const uint8_t *)p;
    for(size_t i = 0; i < n; i++) if(b[i]) return false;
    return true;
}

struct LeakInfo { size_t blocks = 0, bytes = 0; int first_op = -1; uintptr_t site = 0; };
static void leak_cb(void *p, size_t sz, int op, void *key) {
    LeakInfo *li = (LeakInfo *)key; li->blocks++; li->bytes += sz;
    if(li->first_op < 0 || op < li->first_op) { li->first_op = op; li->site = sim_alloc_site_of(p); }
}
static std::string hexs(uintptr_t v) { char b[32]; snprintf(b, sizeof b, "+0x%lx", (unsigned long)v); return b; }

static std::string opsite(const Op &op) { return op.name + (op.args.empty() ? "" : "." + op.args[0]); }

// Interpret the history. recs: pass-1 records to compare against (may be null => this IS pass 1, fill out_recs).
static Verdict exec_history(const Subject &s, const std::vector<Op> &ops, const Fault &fault, const std::vector<Rec> *recs,
                            std::vector<Rec> *out_recs, unsigned *fired_out) {
    Verdict v;
    sim_alloc_reset();
    void *slot = nullptr;
    State st = S_NULL;
    Bytes curE; Syntax cur_sy = SY_DER; size_t off = 0;
    bool diverged = false;
    unsigned fired = 0;
    unsigned sink_fired = 0;
    g_probe_calls = g_probe_on_released = 0;
    const size_t ssize = struct_size_of(s.td);
    if(s.caller_mode && ssize) { slot = sim_alloc_tracked(ssize); st = S_FRESH; }
    auto fail = [&](int j, const std::string &cls, const std::string &detail, const std::string &site = "") {
        if(v.violated) return;
        v.violated = true; v.cls = cls; v.detail = detail; v.at_op = j;
        v.site = site.empty() ? (j >= 0 && j < (int)ops.size() ? opsite(ops[j]) : std::string("end")) + "/" + kind_name(kind_of(s.td)) : site;
    };
    if(out_recs) out_recs->assign(ops.size(), Rec());

    for(int j = 0; j < (int)ops.size() && !v.violated; j++) {
        const Op &op = ops[j];
        status_progress();
        Rec rec;
        bool faulted_here = false;
        sim_alloc_begin_op(j + 1);
        if(fault.op == j) { sim_alloc_fail_at(fault.k, fault.sticky); faulted_here = true; }
        if(fault.op2 == j) { sim_alloc_fail_at2(fault.k2); faulted_here = true; }
        Syntax sy = SY_DER;
        if(!op.args.empty()) syntax_from_name(op.args[0], sy);
        const Rec *p1 = (recs && !diverged && j < (int)recs->size() && (*recs)[j].ran) ? &(*recs)[j] : nullptr;

        auto do_decode = [&](const uint8_t *buf, size_t n, bool judge_against_ref) {
            DecResult r = decode_call(s.td, sy, &slot, buf, n);
            rec.allocs = sim_alloc_op_count();
            int f = sim_alloc_fault_fired(); fired += f;
            sim_alloc_fail_at(-1, 0); sim_alloc_fail_at2(-1);
            rec.ran = true;
            EV.ev("op%d %s %s n=%zu -> %s %zu allocs=%ld fired=%d", j, op.name.c_str(), syntax_name(sy), n, r.aborted ? "ABORT" : rc_name(r.code), r.consumed, rec.allocs, f);
            if(r.aborted) { fail(j, "abort", "assertion during " + op.name, "abort:" + abort_site()); slot = nullptr; return r; }
            if(r.consumed > n) { fail(j, "overconsume", "consumed more than presented"); return r; }
            rec.rc = r.code; rec.consumed = r.consumed;
            if(r.code == RC_OK && slot) {
                Fingerprint fp = fingerprint(s.td, slot);
                if(fp.aborted) { fail(j, "abort", "assertion while encoding decoded value", "abort:" + abort_site()); return r; }
                rec.fph = fp_hash(fp);
            }
            if(p1) {
                bool same = (p1->rc == rec.rc && p1->consumed == rec.consumed && (rec.rc != RC_OK || p1->fph == rec.fph));
                if(!same) {
                    if(!f) { fail(j, "nondeterministic", "same op, no fault fired, different result (" + std::string(rc_name(p1->rc)) + " vs " + rc_name(rec.rc) + ")"); return r; }
                    diverged = true;
                    if(rec.rc == RC_OK) { fail(j, "different-success", "allocation failure turned into a different successful decode"); return r; }
                    if(rec.rc == RC_WMORE) G.add("c14.note.wmore_after_oom");
                }
            }
            if(f) diverged = true;      // same result code does not imply same structure contents
            if(judge_against_ref && !f) {
                auto it = s.ref.find(sy);
                if(it != s.ref.end()) {
                    const Subject::RefDec &rd = it->second;
                    bool same = rd.rc == rec.rc && rd.consumed == rec.consumed && (rec.rc != RC_OK || fp_hash(rd.fp) == rec.fph);
                    if(!same) fail(j, "redecode-differs", std::string("decode into a reset structure: ") + rc_name(rec.rc) + "/" + L((long)rec.consumed)
                                      + ", into a fresh one: " + rc_name(rd.rc) + "/" + L((long)rd.consumed) + (rec.rc == RC_OK && rd.rc == RC_OK ? " (or value differs)" : ""));
                }
            }
            return r;
        };

        if(op.name == "decode-prefix") {
            auto it = s.enc.find(sy);
            if(!(st == S_NULL || st == S_FRESH) || it == s.enc.end()) continue;
            curE = it->second; cur_sy = sy;
            size_t cut = curE.empty() ? 0 : (size_t)op.attrl("cut", 0) % (curE.size() + 1);
            DecResult r = do_decode(curE.data(), cut, false);
            if(v.violated) break;
            if(r.code == RC_WMORE && sy != SY_UPER) { st = S_PARTIAL; off = r.consumed; G.add("c14.fired.eof_before_end"); }
            else { st = S_DONE; if(r.code == RC_WMORE) G.add("c14.fired.eof_before_end"); }     // UPER: a starved decode is final
        } else if(op.name == "decode-rest") {
            if(st != S_PARTIAL) continue;
            sy = cur_sy;
            DecResult r = do_decode(curE.data() + off, curE.size() - off, false);
            if(v.violated) break;
            if(r.code == RC_WMORE) off += r.consumed; else st = S_DONE;
            G.add("c14.fired.chunk_boundary_resumed");
        } else if(op.name == "decode-garbage") {
            Bytes g; from_hex(op.attr("hex"), g);
            bool cont = op.attrl("cont", 0) != 0;
            if(cont) { if(st != S_PARTIAL) continue; sy = cur_sy; }
            else if(!(st == S_NULL || st == S_FRESH)) continue;
            DecResult r = do_decode(g.data(), g.size(), false);
            if(v.violated) break;
            if(r.code == RC_WMORE) { st = S_PARTIAL; cur_sy = sy; curE = g; off = r.consumed; if(cont) st = S_DONE; } else st = S_DONE;
            G.add("c14.fired.garbage_decoded");
        } else if(op.name == "redecode") {
            auto it = s.enc.find(sy);
            if(!(st == S_NULL || st == S_FRESH) || it == s.enc.end()) continue;
            bool after_reset = (st == S_FRESH);
            do_decode(it->second.data(), it->second.size(), true);
            if(v.violated) break;
            st = S_DONE;
            if(after_reset) G.add("c14.fired.decode_into_reset_structure");
        } else if(op.name == "listfree") {
            if(!slot) continue;
            unsigned nl = 0;
            walk(s.td, slot, [&](const Node &n) { Kind k = kind_of(n.td); if(k == K_SET_OF || k == K_SEQUENCE_OF) { _A_SET_FROM_VOID(n.ptr)->free = reinterpret_cast<decltype(_A_SET_FROM_VOID(n.ptr)->free)>(list_free_probe);  /* the C library calls it with the element pointer by value */ nl++; } return true; }, 5000);
            rec.ran = true; if(nl) G.add("c14.fired.list_free_callback_installed");
        } else if(op.name == "reset") {
            if(!slot) continue;
            bool okc = libcall([&] { ASN_STRUCT_RESET(*s.td, slot); });
            rec.ran = true; rec.allocs = sim_alloc_op_count();
            EV.ev("op%d reset", j);
            if(!okc) { fail(j, "abort", "assertion during reset", "abort:" + abort_site()); break; }
            if(ssize && !all_zero(slot, ssize)) { fail(j, "reset-nonzero", "structure not zeroed by ASN_STRUCT_RESET"); break; }
            st = S_FRESH;
            G.add("c14.resets");
        } else if(op.name == "encode") {
            if(!slot) continue;
            EncResult e;
            {   // always through the counting sink; it fails from its k-th invocation on when the op carries sinkfail=k
                FailSink fs; fs.k = op.has("sinkfail") ? op.attrl("sinkfail") : LONG_MAX;
                asn_enc_rval_t er; er.encoded = -1;
                bool okc = libcall([&] { er = asn_encode(0, syntax_ats(sy), s.td, slot, fail_sink, &fs); });
                e.aborted = !okc; e.encoded = okc ? er.encoded : -1;
                e.out.resize(8); memcpy(e.out.data(), &fs.h, 8);          // what reached the sink before any failure, as a hash
                rec.cbs = fs.calls;
                if(fs.fired) { sink_fired++; if(okc && er.encoded >= 0) { fail(j, "sink-failure-ignored", "output callback failed but the encoder reported success"); break; } }
            }
            rec.allocs = sim_alloc_op_count(); int f = sim_alloc_fault_fired(); fired += f;
            sim_alloc_fail_at(-1, 0); sim_alloc_fail_at2(-1);
            rec.ran = true; rec.enc = e.encoded; rec.ench = fnv1a(e.out.data(), e.out.size());
            EV.ev("op%d encode %s -> %zd allocs=%ld fired=%d", j, syntax_name(sy), e.aborted ? (ssize_t)-9 : e.encoded, rec.allocs, f);
            if(e.aborted) { fail(j, "abort", "assertion during encode", "abort:" + abort_site()); break; }
            if(p1 && (p1->enc != rec.enc || (rec.enc >= 0 && p1->ench != rec.ench))) {
                if(!f) { fail(j, "nondeterministic", "encode result changed without a fault"); break; }
                if(rec.enc >= 0) { fail(j, "different-success", "allocation failure turned into a different successful encoding"); break; }
            }
            if(f) diverged = true;
        } else if(op.name == "tonew") {
            if(!slot) continue;
            asn_encode_to_new_buffer_result_t res; memset(&res, 0, sizeof res);
            bool okc = libcall([&] { res = asn_encode_to_new_buffer(0, syntax_ats(sy), s.td, slot); });
            rec.allocs = sim_alloc_op_count(); int f = sim_alloc_fault_fired(); fired += f;
            sim_alloc_fail_at(-1, 0); sim_alloc_fail_at2(-1);
            rec.ran = true;
            if(!okc) { fail(j, "abort", "assertion during to_new_buffer", "abort:" + abort_site()); break; }
            rec.enc = res.buffer ? res.result.encoded : -1;
            if(res.buffer) { rec.ench = fnv1a(res.buffer, res.result.encoded > 0 ? res.result.encoded : 0); free(res.buffer); }
            EV.ev("op%d tonew %s -> %zd fired=%d", j, syntax_name(sy), rec.enc, f);
            if(p1 && (p1->enc != rec.enc || (rec.enc >= 0 && p1->ench != rec.ench))) {
                if(!f) { fail(j, "nondeterministic", "to_new_buffer result changed without a fault"); break; }
                if(rec.enc >= 0) { fail(j, "different-success", "allocation failure turned into a different buffer"); break; }
            }
            if(f) diverged = true;
        } else if(op.name == "check") {
            if(!slot) continue;
            char eb[128]; size_t el = sizeof eb; int rc = 0;
            bool okc = libcall([&] { rc = asn_check_constraints(s.td, slot, eb, &el); });
            rec.ran = true; rec.rc = rc; rec.allocs = sim_alloc_op_count(); fired += sim_alloc_fault_fired();
            sim_alloc_fail_at(-1, 0); sim_alloc_fail_at2(-1);
            EV.ev("op%d check -> %d", j, rc);
            if(!okc) { fail(j, "abort", "assertion during asn_check_constraints", "abort:" + abort_site()); break; }
        } else if(op.name == "print") {
            if(!slot) continue;
            int rc = 0;
            bool okc = libcall([&] { rc = s.td->op->print_struct(s.td, slot, 1, null_sink, 0); });
            rec.ran = true; rec.rc = rc; rec.allocs = sim_alloc_op_count(); fired += sim_alloc_fault_fired();
            sim_alloc_fail_at(-1, 0); sim_alloc_fail_at2(-1);
            EV.ev("op%d print -> %d", j, rc);
            if(!okc) { fail(j, "abort", "assertion during print", "abort:" + abort_site()); break; }
        } else if(op.name == "free-contents") {
            if(!slot || !s.caller_mode) continue;
            bool okc = libcall([&] { ASN_STRUCT_FREE_CONTENTS_ONLY(*s.td, slot); });
            rec.ran = true;
            EV.ev("op%d free-contents", j);
            if(!okc) { fail(j, "abort", "assertion during free", "abort:" + abort_site()); break; }
            free(slot); slot = nullptr; st = S_NULL;
            if(sim_alloc_live_count()) { LeakInfo li; sim_alloc_foreach_live(leak_cb, &li);
                fail(j, "leak", L((long)li.blocks) + " block(s), " + L((long)li.bytes) + " bytes still allocated after FREE_CONTENTS_ONLY",
                     "leak:" + (li.first_op >= 1 && li.first_op <= (int)ops.size() ? opsite(ops[li.first_op - 1]) : std::string("?")) + "/" + kind_name(kind_of(s.td))); break; }
        } else if(op.name == "free") {
            if(!slot) continue;
            bool okc = libcall([&] { ASN_STRUCT_FREE(*s.td, slot); });
            rec.ran = true;
            EV.ev("op%d free", j);
            if(!okc) { fail(j, "abort", "assertion during free", "abort:" + abort_site()); break; }
            slot = nullptr; st = S_NULL;
            if(sim_alloc_live_count()) { LeakInfo li; sim_alloc_foreach_live(leak_cb, &li);
                fail(j, "leak", L((long)li.blocks) + " block(s), " + L((long)li.bytes) + " bytes still allocated after ASN_STRUCT_FREE, allocation site " + hexs(li.site),
                     "leak:" + (li.first_op >= 1 && li.first_op <= (int)ops.size() ? opsite(ops[li.first_op - 1]) : std::string("?")) + "/" + kind_name(kind_of(s.td))); break; }
        } else continue;
        if(sim_alloc_bad_free_count()) { fail(j, "bad-free", "library freed or reallocated a block the ledger does not hold (double or foreign free)"); break; }
        // "fails or succeeds cleanly": whatever a decode call leaves behind describes its own memory truthfully - a list never claims
        // more room than its array has, a string never more octets than its buffer (checked against the ledger, so that the next user
        // of the structure - print, encode, ASN_SEQUENCE_ADD - is not led beyond a block)
        if(slot && rec.ran && (op.name.rfind("decode", 0) == 0 || op.name == "redecode")) {
            std::string bad;
            walk(s.td, slot, [&](const Node &n) {
                Kind k = kind_of(n.td);
                if(k == K_SET_OF || k == K_SEQUENCE_OF) {
                    const asn_anonymous_set_ *l = _A_CSET_FROM_VOID(n.ptr);
                    size_t have = l->array && sim_alloc_is_live(l->array) ? sim_alloc_size_of(l->array) / sizeof(void *) : (l->array ? (size_t)-1 : 0);
                    if(l->array && !sim_alloc_is_live(l->array)) bad = std::string("list ") + n.td->name + " points to an array that is not allocated any more";
                    else if(l->count < 0 || l->size < 0 || l->count > l->size || (size_t)l->size > have)
                        bad = std::string("list ") + n.td->name + " claims count " + L((long)l->count) + ", room for " + L((long)l->size) + " but its array holds " + (have == (size_t)-1 ? std::string("?") : L((long)have));
                } else if(kind_octets(k)) {
                    const OCTET_STRING_t *o = (const OCTET_STRING_t *)n.ptr;
                    if(o->buf && sim_alloc_is_live(o->buf) && o->size > sim_alloc_size_of(o->buf))
                        bad = std::string("string ") + n.td->name + " claims " + L((long)o->size) + " octets, its buffer has " + L((long)sim_alloc_size_of(o->buf));
                }
                return bad.empty(); }, 5000);
            if(!bad.empty()) { fail(j, "inconsistent-structure", bad); break; }
            G.add("c14.structure_invariant_checks");
        }
        if(out_recs) (*out_recs)[j] = rec;
        (void)faulted_here;
    }
    // implicit final free: everything must go
    if(!v.violated && slot) {
        bool okc = libcall([&] { ASN_STRUCT_FREE(*s.td, slot); });
        slot = nullptr;
        if(!okc) fail((int)ops.size(), "abort", "assertion during final free", "abort:" + abort_site());
        else if(sim_alloc_bad_free_count()) fail((int)ops.size(), "bad-free", "double or foreign free during final ASN_STRUCT_FREE");
        else if(sim_alloc_live_count()) { LeakInfo li; sim_alloc_foreach_live(leak_cb, &li);
            fail((int)ops.size(), "leak", L((long)li.blocks) + " block(s), " + L((long)li.bytes) + " bytes still allocated after the final ASN_STRUCT_FREE, allocation site " + hexs(li.site),
                 "leak:" + (li.first_op >= 1 && li.first_op <= (int)ops.size() ? opsite(ops[li.first_op - 1]) : std::string("?")) + "/" + kind_name(kind_of(s.td))); }
    }
    if(!v.violated && !slot && sim_alloc_live_count()) {
        LeakInfo li; sim_alloc_foreach_live(leak_cb, &li);
        fail((int)ops.size(), "leak", L((long)li.blocks) + " block(s) still allocated at the end of the history",
             "leak:" + (li.first_op >= 1 && li.first_op <= (int)ops.size() ? opsite(ops[li.first_op - 1]) : std::string("?")) + "/" + kind_name(kind_of(s.td)));
    }
    sim_alloc_fail_at(-1, 0); sim_alloc_fail_at2(-1);
    sim_alloc_free_all_live();
    if(!v.violated && g_probe_on_released) { v.violated = true; v.cls = "free-callback-on-released-element"; v.site = kind_name(kind_of(s.td)); v.at_op = (int)ops.size();
        v.detail = "the list's per-element free callback was handed " + L((long)g_probe_on_released) + " element(s) the library had already released"; }
    if(sink_fired) G.add("c14.fired.sink_failure", sink_fired);
    if(fired_out) *fired_out = fired;
    return v;
}

static std::string mk_sig(const Verdict &v) { return "C14/" + v.cls + "/" + v.site; }

static std::vector<Op> with_fault(const std::vector<Op> &ops, const Fault &f) {
    std::vector<Op> o = ops;
    if(f.op >= 0 && f.op < (int)o.size()) { o[f.op].attrs["allocfail"] = L(f.k); if(f.sticky) o[f.op].attrs["sticky"] = "1"; }
    if(f.op2 >= 0 && f.op2 < (int)o.size()) o[f.op2].attrs["allocfail2"] = L(f.k2);
    return o;
}
static Fault fault_of(const std::vector<Op> &ops) {
    Fault f;
    for(int j = 0; j < (int)ops.size(); j++) {
        if(ops[j].has("allocfail")) { f.op = j; f.k = ops[j].attrl("allocfail"); f.sticky = ops[j].attrl("sticky", 0) != 0; }
        if(ops[j].has("allocfail2")) { f.op2 = j; f.k2 = ops[j].attrl("allocfail2"); }
    }
    return f;
}
static std::vector<Op> strip_faults(std::vector<Op> ops) {
    for(auto &o : ops) { o.attrs.erase("allocfail"); o.attrs.erase("sticky"); o.attrs.erase("allocfail2"); }
    return ops;
}
static std::string ops_str(const std::vector<Op> &ops) { std::string s; for(auto &o : ops) s += o.str(); return s; }

static bool prepare_subject(Subject &s, void *value) {
    for(Syntax sy : ENC_SYNTAXES) {
        EncResult e = encode_to_vec(s.td, value, sy);
        if(e.aborted || e.encoded < 0) continue;
        if(sy == SY_XER || sy == SY_CXER) xer_strip_trailing_ws(e.out);
        if(e.out.size() > (s.value_spec.rfind("bulk:", 0) == 0 ? 100000u : 16384u)) continue;   // big encodings only for the one-payload values (few allocations)
        s.enc[sy] = e.out;
    }
    if(s.enc.count(SY_DER)) {      // decoder paths that only non-DER input reaches: constructed strings, indefinite lengths, alternative primitive forms
        BerHints hints; ber_collect_hints(s.td, value, hints);
        Bytes var; VariantStats vs; Rng rv(hash_str(s.value_spec) ^ 0xbe5);
        if(ber_variant(s.enc[SY_DER], rv, var, vs, &hints) && var.size() <= 16384) s.enc[SY_BER] = var;
    }
    // reference: fresh decode of each valid encoding
    for(auto &kv : s.enc) {
        Syntax sy = (Syntax)kv.first;
        void *st = nullptr;
        DecResult r = decode_call(s.td, sy, &st, kv.second.data(), kv.second.size());
        if(r.aborted) return false;
        Subject::RefDec rd; rd.rc = r.code; rd.consumed = r.consumed;
        if(r.code == RC_OK && st) rd.fp = fingerprint(s.td, st);
        s.ref[sy] = rd;
        free_struct(s.td, st);
    }
    return !s.enc.empty();
}

static std::vector<Op> gen_history(const Subject &s, Rng &r, const Bytes *other) {
    std::vector<Op> ops;
    std::vector<Syntax> have;
    for(Syntax sy : DEC_SYNTAXES) if(s.enc.count(sy)) have.push_back(sy);
    auto pick = [&]() { return have[r.below(have.size())]; };
    auto pick_stream = [&]() { for(int i = 0; i < 8; i++) { Syntax sy = pick(); if(sy != SY_UPER) return sy; } return have[0]; };
    auto enc_sy = [&]() { return ENC_SYNTAXES[r.below(5)]; };
    unsigned len = 2 + (unsigned)r.below(6);
    const bool has_lists = reaches_kind(s.td, K_SET_OF) || reaches_kind(s.td, K_SEQUENCE_OF);
    const bool bulk_subject = s.value_spec.rfind("bulk:", 0) == 0;
    State st = s.caller_mode ? S_FRESH : S_NULL;
    bool have_slot = s.caller_mode;
    for(unsigned i = 0; i < len; i++) {
        unsigned c = (unsigned)r.below(100);
        if((st == S_PARTIAL || st == S_DONE) && has_lists && r.chance(1, 10)) { ops.push_back(mkop("listfree")); continue; }   // the application installs list.free
        if(st == S_NULL || st == S_FRESH) {
            if(c < 40 && !have.empty()) {
                Syntax sy = r.chance(1, 6) && s.enc.count(SY_UPER) ? SY_UPER : pick_stream();
                Op o = mkop("decode-prefix", {syntax_name(sy)}); o.attrs["cut"] = L((long)r.below(s.enc.at(sy).size() + 1));
                // UPER is not restartable: a truncated UPER input is a complete (starved or failed) decode, nothing follows it
                ops.push_back(o); st = sy == SY_UPER ? S_DONE : S_PARTIAL; have_slot = true;        // optimistic; interpreter skips if not enabled
            } else if(c < 65 && !have.empty()) {
                Syntax sy = pick();
                Bytes g = s.enc.at(sy); std::vector<std::string> ap;
                Rng rr(r.next());
                transport_damage(g, rr, other, ap, 1 + (unsigned)rr.below(3));
                if(g.size() > (bulk_subject ? 100000u : 4096u)) g.resize(bulk_subject ? 100000u : 4096u);
                Op o = mkop("decode-garbage", {syntax_name(sy)}); o.attrs["hex"] = to_hex(g);
                ops.push_back(o); st = S_DONE; have_slot = true;
            } else if(!have.empty()) {
                Op o = mkop("redecode", {syntax_name(pick())}); ops.push_back(o); st = S_DONE; have_slot = true;
            }
        } else if(st == S_PARTIAL) {
            if(c < 35) { ops.push_back(mkop("decode-rest")); st = S_DONE; }
            else if(c < 55) {
                Bytes g; size_t k = 1 + (size_t)r.below(24); for(size_t q = 0; q < k; q++) g.push_back((uint8_t)r.below(256));
                Op o = mkop("decode-garbage", {"DER"}); o.attrs["hex"] = to_hex(g); o.attrs["cont"] = "1";
                ops.push_back(o); st = S_DONE;
            } else if(c < 75) { ops.push_back(mkop("reset")); st = S_FRESH; }
            else if(c < 85) { Op o = mkop("encode", {syntax_name(enc_sy())}); if(r.chance(1, 3)) o.attrs["sinkfail"] = L(r.chance(1, 4) ? (long)r.below(200) : (long)r.geom(8) - 1); ops.push_back(o); }
            else if(c < 92) { ops.push_back(mkop("print")); }
            else { ops.push_back(mkop("free")); st = S_NULL; have_slot = false; }
        } else { // S_DONE
            if(c < 30) { ops.push_back(mkop("reset")); st = S_FRESH; }
            else if(c < 55) { Op o = mkop("encode", {syntax_name(enc_sy())}); if(r.chance(1, 3)) o.attrs["sinkfail"] = L(r.chance(1, 4) ? (long)r.below(200) : (long)r.geom(8) - 1); ops.push_back(o); }
            else if(c < 65) { ops.push_back(mkop("tonew", {syntax_name(enc_sy())})); }
            else if(c < 73) { ops.push_back(mkop("check")); }
            else if(c < 81) { ops.push_back(mkop("print")); }
            else if(c < 90 && s.caller_mode) { ops.push_back(mkop("free-contents")); st = S_NULL; have_slot = false; }
            else { ops.push_back(mkop("free")); st = S_NULL; have_slot = false; }
        }
    }
    (void)have_slot;
    ops.push_back(mkop("free"));
    return ops;
}

static void c14_run(uint64_t seed, uint64_t index, bool thorough) {
    Subject s;
    ValueChoice vc = choose_value(seed, 160);
    if(!vc.st) { G.add("c14.skip.novalue"); return; }
    s.td = vc.td; s.value_spec = vc.origin;
    Rng r = stream(seed, "history"), rf = stream(seed, "faults");
    s.caller_mode = struct_size_of(s.td) && r.chance(1, 3);
    bool okp = prepare_subject(s, vc.st);
    // an encoding of another type for splices
    Bytes other;
    { Rng ro = stream(seed, "other"); asn_TYPE_descriptor_t *ot = choose_type(ro);
      if(fillable(ot)) { void *ov = random_value(ot, ro.next(), 40); if(ov) { EncResult e = encode_to_vec(ot, ov, SY_DER); if(e.encoded >= 0) other = e.out; free_struct(ot, ov); } } }
    free_struct(s.td, vc.st);
    sim_alloc_free_all_live();
    if(!okp) { G.add("c14.skip.unencodable"); return; }
    s.head.set("property", "C14"); s.head.set("program", SIM_PROGRAM); s.head.set("type", s.td->name);
    s.head.set("value", s.value_spec); s.head.set("mode", s.caller_mode ? "caller" : "lib");
    s.head.set("realloc", r.chance(1, 2) ? "move" : "normal");
    sim_alloc_always_move(s.head.get("realloc") == "move");
    status_head(s.head.head_str());
    long moves_before = sim_alloc_total_moves();
    bool bulk = s.value_spec.rfind("bulk:", 0) == 0;     // one big payload: every op is expensive, so fewer histories and fault points
    unsigned nh = bulk ? 1 : thorough ? 6 : 3;
    for(unsigned h = 0; h < nh; h++) {
        std::vector<Op> ops = gen_history(s, r, &other);
        status_ops(ops_str(ops));
        std::vector<Rec> recs;
        unsigned fired = 0;
        Verdict v = exec_history(s, ops, Fault(), nullptr, &recs, &fired);
        G.add("c14.histories"); G.add("c14.executions");
        if(v.violated) { report_violation("C14", mk_sig(v), v.detail, s.head.head_str() + ops_str(ops)); continue; }
        // second fault-free pass: the simulator itself must be deterministic here
        // (cheap insurance; counted in executions)
        // enumerate single allocation failures: every op, every k reached
        long cap = bulk ? 10 : thorough ? 512 : 48;
        bool any_fired = false;
        bool stop = false;
        for(int j = 0; j < (int)ops.size() && !stop; j++) {
            long n = recs[j].ran ? recs[j].allocs : 0;
            if(n <= 0) continue;
            std::vector<long> ks;
            if(n <= cap) { for(long k = 0; k < n; k++) ks.push_back(k); }
            else { for(long q = 0; q < cap; q++) ks.push_back((long)rf.below((uint64_t)n)); ks.push_back(0); ks.push_back(n - 1); G.add("c14.k_sampled"); }
            for(long k : ks) {
                for(int sticky = 0; sticky < 2 && !stop; sticky++) {
                    Fault f; f.op = j; f.k = k; f.sticky = sticky;
                    std::vector<Op> fo = with_fault(ops, f);
                    status_ops(ops_str(fo));
                    unsigned fr = 0;
                    Verdict fv = exec_history(s, ops, f, &recs, nullptr, &fr);
                    G.add("c14.executions");
                    if(fr) { any_fired = true; G.add("c14.fired.alloc_failure", fr); G.add(sticky ? "c14.fired.alloc_failure_sticky_runs" : "c14.fired.alloc_failure_single_runs");
                        G.seen("c14.fault_points", hash_str(opsite(ops[j]) + "/" + kind_name(kind_of(s.td)) + "/" + L(k < 24 ? k : 24))); }
                    if(fv.violated) { report_violation("C14", mk_sig(fv), fv.detail, s.head.head_str() + ops_str(fo)); stop = true; }
                }
                if(stop) break;
            }
        }
        // enumerate output callback failures: every encode op, every invocation index reached (sampled above the cap)
        for(int j = 0; j < (int)ops.size() && !stop; j++) {
            if(ops[j].name != "encode" || !recs[j].ran || recs[j].cbs <= 0 || ops[j].has("sinkfail")) continue;
            long n = recs[j].cbs; std::vector<long> ks;
            if(n <= cap) { for(long k = 0; k < n; k++) ks.push_back(k); }
            else { for(long q = 0; q < cap; q++) ks.push_back((long)rf.below((uint64_t)n)); ks.push_back(0); ks.push_back(n - 1); G.add("c14.sink_k_sampled"); }
            for(long k : ks) {
                std::vector<Op> fo = ops; fo[j].attrs["sinkfail"] = L(k);
                status_ops(ops_str(fo));
                unsigned fr = 0;
                Verdict fv = exec_history(s, fo, Fault(), nullptr, nullptr, &fr);
                G.add("c14.executions"); G.add("c14.sink_failure_runs"); any_fired = true;
                if(fv.violated) { report_violation("C14", mk_sig(fv), fv.detail, s.head.head_str() + ops_str(fo)); stop = true; break; }
            }
        }
        if(thorough && !stop) {
            std::vector<int> allocating;
            for(int j = 0; j < (int)ops.size(); j++) if(recs[j].ran && recs[j].allocs > 0) allocating.push_back(j);
            for(unsigned q = 0; q < 24 && allocating.size() >= 2; q++) {
                int a = allocating[rf.below(allocating.size())], b = allocating[rf.below(allocating.size())];
                if(a == b) continue;
                if(a > b) std::swap(a, b);
                Fault f; f.op = a; f.k = (long)rf.below((uint64_t)recs[a].allocs); f.op2 = b; f.k2 = (long)rf.below((uint64_t)recs[b].allocs);
                std::vector<Op> fo = with_fault(ops, f);
                status_ops(ops_str(fo));
                unsigned fr = 0;
                Verdict fv = exec_history(s, ops, f, &recs, nullptr, &fr);
                G.add("c14.executions");
                if(fr >= 2) G.add("c14.fired.double_alloc_failure");
                if(fv.violated) { report_violation("C14", mk_sig(fv), fv.detail, s.head.head_str() + ops_str(fo)); break; }
            }
        }
        G.add("c14.fired.realloc_moved", (uint64_t)(sim_alloc_total_moves() - moves_before)); moves_before = sim_alloc_total_moves();
        if(any_fired) G.seen("c14.nontrivial_histories", hash_str(s.head.head_str() + ops_str(ops)));
        if(G.samples.size() < 4 && (index + h) % 9 == 0) G.samples.push_back(s.head.head_str() + ops_str(with_fault(ops, [&] { Fault f; f.op = 0; f.k = 0; return f; }())));
    }
}

static ReplayResult c14_replay(const Plan &p) {
    ReplayResult rr;
    Subject s;
    s.td = pdu_by_name(p.get("type"));
    if(!s.td) { rr.skipped = true; rr.detail = "unknown type"; return rr; }
    s.value_spec = p.get("value");
    s.caller_mode = p.get("mode") == "caller";
    void *val = value_from_spec(s.td, s.value_spec);
    if(!val) { rr.skipped = true; rr.detail = "value could not be rebuilt"; return rr; }
    bool okp = prepare_subject(s, val);
    free_struct(s.td, val);
    sim_alloc_free_all_live();
    if(!okp) { rr.skipped = true; rr.detail = "value not encodable"; return rr; }
    s.head = p; s.head.ops.clear();
    sim_alloc_always_move(p.get("realloc") == "move");
    std::vector<Op> plain = strip_faults(p.ops);
    Fault f = fault_of(p.ops);
    std::vector<Rec> recs;
    Verdict v = exec_history(s, plain, Fault(), nullptr, &recs, nullptr);
    if(!v.violated && (f.op >= 0 || f.op2 >= 0)) v = exec_history(s, plain, f, &recs, nullptr, nullptr);
    rr.violated = v.violated;
    if(v.violated) { rr.sig = mk_sig(v); rr.detail = v.detail + " (at op " + L(v.at_op) + ")"; }
    return rr;
}

} // namespace

Engine engine_c14 = {"C14", c14_run, c14_replay, nullptr};
