// Structure damage through the public C API only (DESIGN 5.2): no dangling pointers, no size>0 with buf==NULL.
#include "damage.h"
#include "walker.h"
#include <climits>
extern "C" {
#include <asn_SET_OF.h>
#include <BIT_STRING.h>
#include <OCTET_STRING.h>
#include <asn_codecs_prim.h>
#include <constr_CHOICE.h>
}

static const char *KINDS[] = {"choice0", "nullptr", "intval", "strlen", "strchar", "bitsunused", "primempty", "primbytes", "setadd", "setdel"};
static const int NKINDS = sizeof(KINDS) / sizeof(KINDS[0]);

static bool eligible(const std::string &kind, const Node &n) {
    Kind k = kind_of(n.td);
    if(kind == "choice0") return k == K_CHOICE && n.depth > 0 ? true : (k == K_CHOICE);
    if(kind == "nullptr") return n.slot && n.memb && !n.memb->optional && n.parent_td
                                 && (kind_of(n.parent_td) == K_SEQUENCE || kind_of(n.parent_td) == K_SET || kind_of(n.parent_td) == K_CHOICE)   // CHOICE: the selected alternative is kept by pointer and missing
                                 && !(n.memb->flags & (ATF_OPEN_TYPE | ATF_ANY_TYPE));
    if(kind == "intval") return k == K_NATIVE_INTEGER || k == K_NATIVE_ENUMERATED || k == K_BOOLEAN;
    if(kind == "strlen" || kind == "strchar") return k == K_OCTET_STRING || k == K_STRING || k == K_BIT_STRING;
    if(kind == "bitsunused") return k == K_BIT_STRING;
    if(kind == "primempty" || kind == "primbytes") return kind_primbuf(k);
    if(kind == "setadd" || kind == "setdel") return k == K_SET_OF || k == K_SEQUENCE_OF;
    return false;
}

static std::vector<Node> eligible_nodes(asn_TYPE_descriptor_t *td, void *st, const std::string &kind) {
    std::vector<Node> v;
    walk(td, st, [&](const Node &n) { if(eligible(kind, n)) v.push_back(n); return true; }, 20000);
    return v;
}

static const long INTVALS[] = {-1, 256, 65536, 2147483647L, -2147483648L, 2147483648L, 4294967296L, LONG_MAX, LONG_MIN, 17, -129};

bool apply_damage(asn_TYPE_descriptor_t *td, void *st, const Op &op) {
    std::string kind = op.args.empty() ? "" : op.args[0];
    auto nodes = eligible_nodes(td, st, kind);
    if(nodes.empty()) return false;
    Node n = nodes[(size_t)op.attrl("node", 0) % nodes.size()];
    long arg = op.attrl("arg", 0);
    bool ok = true;
    if(kind == "choice0") {
        libcall([&] { ASN_STRUCT_RESET(*n.td, n.ptr); });
    } else if(kind == "nullptr") {
        libcall([&] { ASN_STRUCT_FREE(*n.td, n.ptr); });
        *n.slot = nullptr;
    } else if(kind == "intval") {
        long v = INTVALS[(size_t)arg % (sizeof(INTVALS) / sizeof(INTVALS[0]))];
        if(kind_of(n.td) == K_BOOLEAN) *(int *)n.ptr = (int)v; else *(long *)n.ptr = v;
    } else if(kind == "strlen") {
        OCTET_STRING_t *s = (OCTET_STRING_t *)n.ptr;
        size_t add = 1 + (size_t)(arg % 40);
        uint8_t *nb = nullptr;
        SIM_LIB_ENTER();            // the application would use the same allocator as the library
        nb = (uint8_t *)realloc(s->buf, s->size + add + 1);
        SIM_LIB_LEAVE();
        if(!nb) return false;
        for(size_t i = 0; i < add; i++) nb[s->size + i] = (uint8_t)('a' + (i % 26));
        s->buf = nb; s->size += add; nb[s->size] = 0;
    } else if(kind == "strchar") {
        OCTET_STRING_t *s = (OCTET_STRING_t *)n.ptr;
        if(!s->buf || !s->size) return false;
        static const uint8_t bad[] = {0xff, 0x01, 0x80, 0x00, 0xc0, '<', '&'};
        s->buf[(size_t)(arg / 8) % s->size] = bad[(size_t)arg % sizeof(bad)];
    } else if(kind == "bitsunused") {
        BIT_STRING_t *s = (BIT_STRING_t *)n.ptr;
        static const int vals[] = {1, 3, 7, 5, 2, 6};   // in-range values only: out-of-range shifts are UB but not a C07 outcome
        s->bits_unused = vals[(size_t)arg % 6];
    } else if(kind == "primempty") {
        ASN__PRIMITIVE_TYPE_t *p = (ASN__PRIMITIVE_TYPE_t *)n.ptr;
        SIM_LIB_ENTER(); free(p->buf); SIM_LIB_LEAVE();
        p->buf = nullptr; p->size = 0;
    } else if(kind == "primbytes") {
        // the application (or a peer, through a decoder that stores contents octets verbatim) fills the contents buffer of a
        // buffer-backed primitive with octets of its own: rare but legal forms and plainly wrong ones
        struct Pat { const char *p; size_t n; };
#define PB(s) {s, sizeof(s) - 1}
        static const Pat REALS[] = {PB("\xA3\x03\x20\x00\x00\x00\x01"), PB("\x8F\x03\x7f\xff\xff\xfd\x01"), PB("\x93\x03\x30\x00\x00\x00\x01"), PB("\x83\x03\x00\x00\x00\x05\x01"),
                                    PB("\x83\x02\x00\x00\x05\x03"), PB("\x83\x01\x05\x03"), PB("\x83\x00\x01"), PB("\x83\xff\x01"), PB("\xC1\x7f\xff\x01"), PB("\x82\x80\x00\x00\x01"),
                                    PB("\x80"), PB("\x81\x7f"), PB("\x40"), PB("\x41"), PB("\x42"), PB("\x43"), PB("\x44"), PB("\x03" "1.5E400"), PB("\x01" "15"), PB("\x02" "1.5"), PB("\x00")};
        static const Pat OIDS[] = {PB("\x80"), PB("\x80\x01"), PB("\xff\xff\xff\xff\xff\xff\xff\xff\xff\x7f"), PB("\x2a\x86"), PB("\xff"), PB("\x78\x00"), PB("\x00")};
        static const Pat INTS[] = {PB("\x00\x00\x00\x00\x00\x00\x00\x00\x00\x01"), PB("\xff\xff\xff\xff\xff\xff\xff\xff\xff\xfe"), PB("\x00"), PB("\x80\x00\x00\x00\x00\x00\x00\x00\x00"), PB("\x7f\xff\xff\xff\xff\xff\xff\xff\xff")};
#undef PB
        Kind k = kind_of(n.td);
        const Pat *tab = k == K_REAL ? REALS : k == K_OID ? OIDS : INTS;
        size_t nt = k == K_REAL ? sizeof REALS / sizeof *REALS : k == K_OID ? sizeof OIDS / sizeof *OIDS : sizeof INTS / sizeof *INTS;
        const Pat &pt = tab[(size_t)arg % nt];
        ASN__PRIMITIVE_TYPE_t *p = (ASN__PRIMITIVE_TYPE_t *)n.ptr;
        uint8_t *nb = nullptr;
        SIM_LIB_ENTER(); nb = (uint8_t *)realloc(p->buf, pt.n + 1); SIM_LIB_LEAVE();
        if(!nb) return false;
        memcpy(nb, pt.p, pt.n); nb[pt.n] = 0;
        p->buf = nb; p->size = pt.n;
    } else if(kind == "setadd") {
        const asn_TYPE_descriptor_t *et = n.td->elements[0].type;
        size_t sz = struct_size_of(et);
        if(!sz) return false;
        int cnt = 1 + (int)(arg % 9);
        for(int i = 0; i < cnt && ok; i++) {
            void *e = sim_alloc_tracked(sz);
            int rc = -1;
            libcall([&] { rc = asn_set_add(n.ptr, e); });
            if(rc != 0) { SIM_LIB_ENTER(); free(e); SIM_LIB_LEAVE(); ok = false; }
        }
    } else if(kind == "setdel") {
        asn_anonymous_set_ *l = _A_SET_FROM_VOID(n.ptr);
        const asn_TYPE_descriptor_t *et = n.td->elements[0].type;
        while(l->count > 0) {
            void *e = l->array[l->count - 1];
            l->count--;
            libcall([&] { ASN_STRUCT_FREE(*et, e); });
        }
    } else return false;
    return ok;
}

Op random_damage(asn_TYPE_descriptor_t *td, void *st, Rng &r) {
    Op op; op.name = "damage";
    // try a few kinds until one has an eligible node
    for(int tries = 0; tries < 12; tries++) {
        std::string kind = KINDS[r.below(NKINDS)];
        auto nodes = eligible_nodes(td, st, kind);
        if(nodes.empty()) continue;
        op.args = {kind};
        op.attrs["node"] = L((long)r.below(nodes.size()));
        op.attrs["arg"] = L((long)r.below(1000));
        return op;
    }
    op.args = {"none"};
    return op;
}
