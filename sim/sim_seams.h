/* Link-time seams owned by the simulator: allocator, abort, random. */
#ifndef SIM_SEAMS_H
#define SIM_SEAMS_H
#include <stddef.h>
#include <stdint.h>
#include <setjmp.h>
#ifdef __cplusplus
extern "C" {
#endif

/* ---- "inside a library call" flag: separates library allocations from harness ones ---- */
extern int sim_in_lib;
#define SIM_LIB_ENTER() (sim_in_lib++)
#define SIM_LIB_LEAVE() (sim_in_lib--)

/* ---- allocator seam ---- */
void   sim_alloc_reset(void);               /* new run: forget ledger (blocks still live are abandoned) */
void   sim_alloc_begin_op(int op_index);    /* per-op allocation counter := 0, no fault armed */
void   sim_alloc_fail_at(long k, int sticky);/* k-th (0-based) library allocation of this op returns NULL; k<0: none */
void   sim_alloc_fail_at2(long k2);         /* a second single failure in the same op (double faults); <0 none */
long   sim_alloc_op_count(void);            /* library allocation requests seen in this op */
int    sim_alloc_fault_fired(void);         /* number of NULLs handed to the library in this op */
uintptr_t sim_alloc_fault_site(void);       /* return address (image relative) of the first refused request */
void   sim_alloc_fill(int on, unsigned char byte); /* fresh (malloc/realloc-grown) library memory is filled with this byte */
void   sim_alloc_always_move(int on);       /* realloc always returns a new address */
void   sim_alloc_set_budget(long limit);    /* <0: unlimited. live+request>limit => refuse and count */
long   sim_alloc_budget_refusals(void);
size_t sim_alloc_budget_worst_request(void);
size_t sim_alloc_live_count(void);
size_t sim_alloc_live_bytes(void);
size_t sim_alloc_peak_bytes(void);
void   sim_alloc_reset_peak(void);
long   sim_alloc_bad_free_count(void);      /* library freed/realloc'ed a block the ledger does not hold */
long   sim_alloc_total_moves(void);
void  *sim_alloc_tracked(size_t size);      /* harness-made zeroed block the library is allowed to free */
int    sim_alloc_is_live(const void *p);
size_t sim_alloc_size_of(const void *p);    /* 0 if unknown */
/* iterate live blocks: calls cb(ptr,size,op_index) */
void   sim_alloc_foreach_live(void (*cb)(void *p, size_t sz, int op, void *key), void *key);
uintptr_t sim_alloc_site_of(const void *p);  /* image-relative return address of the allocating call */
void   sim_alloc_free_all_live(void);       /* release abandoned blocks (after a violation) */

/* ---- abort seam ---- */
struct sim_abort_record {
    char file[96];
    char func[96];
    char expr[160];
    unsigned line;
};
extern struct sim_abort_record sim_abort_last;
extern jmp_buf sim_abort_jmp;
extern int sim_abort_armed;
extern long sim_abort_count;

/* ---- random seam: library randomness (asn_random_between -> random()) ---- */
void sim_random_seed(uint64_t s);

#ifdef __cplusplus
}
#endif
#endif
