// C05: chunked (restartable) decoding equals one-shot decoding.  DESIGN 5.1
#include "engine.h"
#include "walker.h"
#include "ber.h"
#include <algorithm>
#include <cerrno>

extern "C" void *sim_conv_decode(enum asn_transfer_syntax, asn_TYPE_descriptor_t *, FILE *, long, int);

namespace {

struct MemFile { const Bytes *b; size_t pos; };
static ssize_t mf_read(void *c, char *buf, size_t n) {
    MemFile *m = (MemFile *)c;
    size_t k = std::min(n, m->b->size() - m->pos);
    memcpy(buf, m->b->data() + m->pos, k); m->pos += k;
    return (ssize_t)k;
}

struct Case {
    asn_TYPE_descriptor_t *td = nullptr;
    Syntax sy = SY_DER;
    Bytes S;                 // E followed by trailing bytes
    size_t elen = 0;         // |E| by the independent end-of-encoding rule
    // one-shot reference over S
    asn_dec_rval_code_e ref_code = RC_FAIL;
    size_t ref_consumed = 0;
    Fingerprint ref_fp;
    Plan head;               // plan header (replay file minus ops)
};

struct Outcome {
    bool violated = false;
    std::string cls, site, detail;
    unsigned resumed = 0;          // calls that returned WMORE and were continued
    unsigned empties = 0;
    std::vector<size_t> advance_offsets;   // offsets where consumed advanced
    uint64_t work = 0;             // bytes presented to the decoder
};

static std::string mk_sig(const Case &c, const Outcome &o) {
    return std::string("C05/") + o.cls + "/" + syntax_name(c.sy) + "/" + (o.site.empty() ? "fresh" : o.site);
}

// one-shot reference; returns false (with reason) if the precondition does not hold
static bool prepare_reference(Case &c, std::string &why) {
    void *st = nullptr;
    // precondition on E alone
    DecResult r = decode_call(c.td, c.sy, &st, c.S.data(), c.elen);
    if(r.aborted) { why = "oneshot_abort"; return false; }
    if(r.code != RC_OK || r.consumed != c.elen) {
        why = std::string("oneshot_") + rc_name(r.code) + (r.code == RC_OK ? "_short" : "");
        free_struct(c.td, st);
        return false;
    }
    Fingerprint fe = fingerprint(c.td, st);
    free_struct(c.td, st);
    if(fe.aborted) { why = "oneshot_fp_abort"; return false; }
    if(!fe.der_ok && !fe.cxer_ok) { why = "oneshot_unencodable"; return false; }
    if(c.S.size() == c.elen) { c.ref_code = RC_OK; c.ref_consumed = c.elen; c.ref_fp = fe; return true; }
    // with trailing bytes: the reference is the one-shot decode of S itself
    st = nullptr;
    r = decode_call(c.td, c.sy, &st, c.S.data(), c.S.size());
    if(r.aborted) { why = "oneshot_trailing_abort"; return false; }
    if(r.code != RC_OK || r.consumed != c.elen) { why = "oneshot_trailing_differs"; free_struct(c.td, st); return false; }
    c.ref_code = r.code; c.ref_consumed = r.consumed;
    c.ref_fp = fingerprint(c.td, st);
    free_struct(c.td, st);
    if(c.ref_fp != fe) { why = "oneshot_trailing_value_differs"; return false; }
    return true;
}

// The receiver loop the manual prescribes, with the oracle evaluated at every step.
// deliveries: sizes; -1 = the rest.
static void exec_schedule(const Case &c, const std::vector<long> &deliveries, Outcome &o, bool want_offsets = false, bool trace = false) {
    size_t off = 0, avail = 0;
    const size_t n = c.S.size();
    void *st = nullptr;
    std::string site;        // resumption point the next call starts from
    bool done = false;
    size_t nd = deliveries.size();
    bool called = false;
    for(size_t di = 0; di <= nd && !done; di++) {
        long d;
        if(di < nd) d = deliveries[di];
        else { if(avail >= n && called) break; d = -1; }          // implicit final "rest" (also the only call for an empty encoding)
        if(d < 0 || (size_t)d > n - avail) d = (long)(n - avail);
        if(d == 0) o.empties++;
        avail += (size_t)d;
        status_progress();
        called = true;
        o.work += (avail - off) + 64;
        DecResult r = decode_call(c.td, c.sy, &st, c.S.data() + off, avail - off);
        EV.ev("deliver %ld avail %zu off %zu -> %s %zu", d, avail, off, r.aborted ? "ABORT" : rc_name(r.code), r.consumed);
        if(r.aborted) {
            o.violated = true; o.cls = "abort"; o.site = abort_site();
            o.detail = "assertion during chunked decode at avail=" + L(avail);
            st = nullptr;      // state unknown; abandon
            sim_alloc_free_all_live();
            return;
        }
        if(r.consumed > avail - off) {
            o.violated = true; o.cls = "overconsume"; o.site = site;
            o.detail = "consumed " + L(r.consumed) + " > presented " + L(avail - off);
            break;
        }
        if(want_offsets && r.consumed) o.advance_offsets.push_back(off + r.consumed);
        off += r.consumed;
        if(avail < c.elen) {
            if(r.code != RC_WMORE) {
                o.violated = true; o.cls = std::string("prefix-") + rc_name(r.code); o.site = site;
                o.detail = "proper prefix of " + L(avail) + "/" + L(c.elen) + " bytes returned " + rc_name(r.code);
                break;
            }
            o.resumed++;
            if(trace) {
                site = deepest_in_progress(c.td, st);
                G.seen("c05.resume_states", hash_str(std::string(syntax_name(c.sy)) + "/" + site));
            }
            continue;
        }
        // all of E has been delivered
        if(r.code == RC_WMORE) {
            if(avail < n) { o.resumed++; if(trace) site = deepest_in_progress(c.td, st); continue; }   // may legitimately want the trailing bytes? no: judged at the end
            o.violated = true; o.cls = "final-WMORE"; o.site = site;
            o.detail = "all " + L(n) + " bytes delivered, decoder still wants more (one-shot returned OK)";
            break;
        }
        if(r.code != c.ref_code) {
            o.violated = true; o.cls = std::string("final-") + rc_name(r.code); o.site = site;
            o.detail = std::string("chunked ended with ") + rc_name(r.code) + ", one-shot with " + rc_name(c.ref_code);
            break;
        }
        if(off != c.ref_consumed) {
            o.violated = true; o.cls = "consumed"; o.site = site;
            o.detail = "total consumed " + L(off) + " != one-shot " + L(c.ref_consumed);
            break;
        }
        Fingerprint fp = fingerprint(c.td, st);
        if(fp.aborted) { o.violated = true; o.cls = "abort"; o.site = abort_site(); o.detail = "assertion while re-encoding chunk-decoded value"; break; }
        if(fp != c.ref_fp) {
            o.violated = true; o.cls = "value"; o.site = site;
            o.detail = "value decoded in chunks differs from one-shot value";
            break;
        }
        done = true;
    }
    if(!o.violated && !done) {
        // ran out of deliveries without finishing: only possible if implicit rest was skipped
        o.violated = true; o.cls = "final-WMORE"; o.site = site; o.detail = "schedule ended, decoder still starving";
    }
    free_struct(c.td, st);
    if(!o.violated && sim_alloc_live_count() != 0) {
        // not C05's clause (C14 owns it) - counted only
        G.add("c05.note.live_blocks_after_free");
        sim_alloc_free_all_live();
    }
    if(o.violated) sim_alloc_free_all_live();
}

// The repository's own receiver: converter-example.c's data_decode_from_file() reading K copies of E from a
// simulated file whose read size (-b) is the chunking. Oracle: K structures equal to the one-shot value, then clean EOF.
static void exec_stream_loop(const Case &c, unsigned K, long bufsize, Outcome &o) {
    Bytes stream; Bytes E(c.S.begin(), c.S.begin() + c.elen);
    for(unsigned k = 0; k < K; k++) stream.insert(stream.end(), E.begin(), E.end());     // PDUs back to back
    MemFile mf{&stream, 0};
    cookie_io_functions_t io = {mf_read, nullptr, nullptr, nullptr};
    FILE *f = fopencookie(&mf, "r", io);
    if(!f) return;
    setvbuf(f, nullptr, _IONBF, 0);
    unsigned got = 0;
    for(unsigned k = 0; k <= K && !o.violated; k++) {
        void *st = nullptr; int err = 0;
        status_progress();
        bool ok = guardcall([&] { errno = 0; st = sim_conv_decode(syntax_ats(c.sy), c.td, f, bufsize, k == 0); err = errno; });
        EV.ev("conv pdu %u bufsize %ld -> %s errno=%d", k, bufsize, !ok ? "ABORT" : st ? "structure" : "NULL", ok ? err : 0);
        o.work += stream.size() / (K ? K : 1) + 64;
        if(!ok) { o.violated = true; o.cls = "abort"; o.site = "stream-loop:" + abort_site(); o.detail = "assertion / exit() inside the repository's stream loop"; break; }
        if(k == K) {
            // how the example application words end-of-file is its own policy, not a decoder property: counted only
            if(st) { G.add("c05.note.stream_loop_extra_pdu"); guardcall([&] { ASN_STRUCT_FREE(*c.td, st); }); }
            else if(err != 0) G.add("c05.note.stream_loop_eof_errno");
            break;
        }
        if(!st) { o.violated = true; o.cls = "stream-loop-short"; o.site = kind_name(kind_of(c.td)); o.detail = "stream of " + L(K) + " PDUs read with buffer size " + L(bufsize) + ": only " + L(got) + " decoded (errno " + L(err) + ")"; break; }
        got++;
        Fingerprint fp = fingerprint(c.td, st);
        guardcall([&] { ASN_STRUCT_FREE(*c.td, st); });
        if(fp.aborted) { o.violated = true; o.cls = "abort"; o.site = abort_site(); o.detail = "assertion while re-encoding a value decoded by the stream loop"; break; }
        if(fp != c.ref_fp) { o.violated = true; o.cls = "stream-loop-value"; o.site = kind_name(kind_of(c.td)); o.detail = "PDU " + L(k) + " decoded through the stream loop (buffer size " + L(bufsize) + ") differs from the one-shot value"; break; }
        o.resumed++;
    }
    fclose(f);
    sim_alloc_free_all_live();
}

static std::string ops_text(const std::vector<long> &d) {
    std::string s;
    for(long x : d) { s += "op deliver "; s += (x < 0 ? std::string("rest") : L(x)); s += "\n"; }
    return s;
}

static uint64_t g_case_work, g_case_budget;
static bool run_sched(const Case &c, const std::vector<long> &d, const char *klass, Outcome *out = nullptr, bool want_offsets = false) {
    if(g_case_work > g_case_budget) { G.add("c05.sched_dropped_by_work_budget"); if(out) *out = Outcome(); return true; }
    Outcome o;
    std::string ops = ops_text(d);
    status_ops(ops);
    exec_schedule(c, d, o, want_offsets, want_offsets);
    if(o.violated && !want_offsets) { o = Outcome(); exec_schedule(c, d, o, false, true); }   // again, tracing the resumption point
    g_case_work += o.work + 4 * c.S.size();
    G.add("c05.schedules");
    G.add(std::string("c05.sched.") + klass);
    G.add("c05.decode_calls", o.resumed + 1);
    if(o.resumed) { G.add("c05.fired.chunk_boundary_resumed", o.resumed); }
    if(o.empties) G.add("c05.fired.empty_delivery", o.empties);
    if(o.violated) report_violation("C05", mk_sig(c, o), o.detail, c.head.head_str() + ops);
    if(out) *out = o;
    return !o.violated;
}

static bool build_case(uint64_t seed, Case &c, std::string &skip) {
    Rng rs = stream(seed, "syntax"), rvar = stream(seed, "variant");
    ValueChoice v = choose_value(seed);
    if(!v.st) { skip = "novalue"; return false; }
    c.td = v.td;
    static const Syntax menu[] = {SY_DER, SY_BER, SY_BER, SY_OER, SY_OER, SY_XER, SY_CXER};
    c.sy = menu[rs.below(sizeof(menu) / sizeof(menu[0]))];
    EncResult e = encode_to_vec(c.td, v.st, c.sy == SY_BER ? SY_DER : c.sy);
    BerHints hints;
    if(c.sy == SY_BER) ber_collect_hints(c.td, v.st, hints);
    free_struct(c.td, v.st);
    if(e.aborted) { skip = "encode_abort"; return false; }
    if(e.encoded < 0) { skip = std::string("encode_failed_") + syntax_name(c.sy); return false; }
    Bytes E = e.out;
    if(c.sy == SY_BER) {
        Bytes var; VariantStats vs;
        if(!ber_variant(E, rvar, var, vs, &hints)) { skip = "variant_unparsable"; return false; }
        E = var;
        G.add("c05.variant.indefinite", vs.indefinite); G.add("c05.variant.longform", vs.longform); G.add("c05.variant.segmented", vs.segmented); G.add("c05.variant.alternative_primitive", vs.alternative); G.add("c05.variant.set_reordered", vs.reordered); G.add("c05.variant.unknown_extension", vs.unknown_ext);
    }
    if(c.sy == SY_XER || c.sy == SY_CXER) xer_strip_trailing_ws(E);
    // a top-level primitive type has no saved context to resume from: what is in front of its opening tag matters most there
    const bool top_prim = !kind_constructed(kind_of(c.td));
    if(c.sy == SY_XER && (top_prim || rvar.chance(1, 2))) {
        Bytes var; XerVariantStats xs; xer_variant(E, rvar, var, xs, top_prim);
        E = var; c.head.set("xer_variant", "1");
        G.add("c05.variant.xer_whitespace", xs.whitespace); G.add("c05.variant.xer_comments", xs.comments); G.add("c05.variant.xer_emptytags", xs.emptytags); G.add("c05.variant.xer_charrefs", xs.charrefs); G.add("c05.variant.xer_attributes", xs.attributes);
    }
    if(c.sy == SY_DER || c.sy == SY_BER) {
        if(ber_end_of_encoding(E) != E.size()) { skip = "eoe_mismatch"; return false; }
    }
    if(E.size() > 65536) { skip = "too_large"; return false; }
    c.elen = E.size();
    c.S = E;
    if(rs.chance(1, 3) && !E.empty()) {
        size_t t = 1 + (size_t)rs.below(8);
        if(rs.chance(1, 2)) for(size_t i = 0; i < t; i++) c.S.push_back(E[i % E.size()]);      // start of the next PDU
        else for(size_t i = 0; i < t; i++) c.S.push_back((uint8_t)rs.below(256));
    }
    c.head.set("property", "C05");
    c.head.set("program", SIM_PROGRAM);
    c.head.set("type", c.td->name);
    c.head.set("syntax", syntax_name(c.sy));
    c.head.set("origin", v.origin);
    c.head.set("realloc", rs.chance(1, 2) ? "move" : "normal");      // always-move realloc: stale pointers into grown buffers show up
    c.head.set("elen", L(c.elen));
    c.head.set("stream", to_hex(c.S));
    return true;
}

static void c05_run(uint64_t seed, uint64_t index, bool thorough) {
    Case c;
    std::string skip;
    if(!build_case(seed, c, skip)) { G.add("c05.skip." + skip); EV.ev("skip %s", skip.c_str()); return; }
    status_head(c.head.head_str());
    status_ops("op deliver rest\n");
    sim_alloc_always_move(c.head.get("realloc") == "move");
    std::string why;
    if(!prepare_reference(c, why)) {
        if(c.S.size() != c.elen && why.rfind("oneshot_trailing", 0) == 0) {
            // trailing bytes disturb the one-shot decode: not a chunking matter; drop them and go on
            G.add("c05.skip_trailing." + why);
            c.S.resize(c.elen);
            c.head.set("stream", to_hex(c.S));
            if(!prepare_reference(c, why)) { G.add("c05.skip." + why); return; }
        } else { G.add("c05.skip." + why + "." + syntax_name(c.sy)); EV.ev("skip %s", why.c_str()); return; }
    }
    status_head(c.head.head_str());
    G.add("c05.cases");
    G.add(std::string("c05.cases.") + syntax_name(c.sy));
    G.seen("c05.cases", hash_str(c.head.head_str()));
    Rng rsch = stream(seed, "schedule");
    g_case_work = 0; g_case_budget = thorough ? (96u << 20) : (6u << 20);
    const size_t n = c.S.size();
    unsigned before = (unsigned)g_violation_counts.size();
    uint64_t resumed_before = G.n["c05.fired.chunk_boundary_resumed"];
    long moves_before = sim_alloc_total_moves();

    // (i) every 2-chunk split (exhaustive up to the cap, sampled above)
    size_t cap = thorough ? 4096 : 1024;
    if(n <= cap) {
        for(size_t k = 0; k < n; k++) run_sched(c, {(long)k, -1}, "two_split");
        if(g_case_work <= g_case_budget) G.add("c05.cases_all_two_splits");
    } else {
        for(unsigned i = 0; i < (thorough ? 1024u : 128u); i++) run_sched(c, {(long)rsch.below(n), -1}, "two_split_sampled");
    }
    // (ii) one byte at a time, also learns where `consumed` advances
    std::vector<size_t> adv;
    if(n <= (thorough ? 8192u : 1024u)) {
        std::vector<long> d(n, 1);
        Outcome o;
        run_sched(c, d, "byte_by_byte", &o, true);
        adv = o.advance_offsets;
    }
    // (iv) structure-biased cuts: around offsets where consumed advanced and around TLV / markup boundaries
    std::vector<size_t> b = adv;
    if(c.sy == SY_DER || c.sy == SY_BER) ber_boundaries(c.S, b);
    else if(c.sy == SY_XER || c.sy == SY_CXER) xer_boundaries(c.S, b);
    std::sort(b.begin(), b.end()); b.erase(std::unique(b.begin(), b.end()), b.end());
    if(b.size() >= 2) {
        unsigned m = thorough ? 96 : 32;
        for(unsigned i = 0; i < m; i++) {
            size_t x = b[rsch.below(b.size())], y = b[rsch.below(b.size())];
            x = (size_t)std::max<long>(0, std::min<long>((long)n, (long)x + rsch.range(-1, 1)));
            y = (size_t)std::max<long>(0, std::min<long>((long)n, (long)y + rsch.range(-1, 1)));
            if(x > y) std::swap(x, y);
            std::vector<long> d = {(long)x, (long)(y - x)};
            if(rsch.chance(1, 4)) d.insert(d.begin() + 1, 0);
            d.push_back(-1);
            run_sched(c, d, "biased_three");
        }
    }
    // (iii)+(v) seeded k-chunk schedules with empties
    unsigned ks = thorough ? 48 : 16;
    for(unsigned i = 0; i < ks; i++) {
        std::vector<long> d;
        size_t left = n;
        unsigned mode = (unsigned)rsch.below(4);
        size_t scale = n > 2048 ? n / 1024 : 1;       // keep the number of calls bounded on big streams
        while(left > 0 && d.size() < n + 8) {
            size_t s;
            switch(mode) {
            case 0: s = 1 + rsch.below(2); break;
            case 1: s = rsch.geom(64); break;
            case 2: s = 1 + rsch.below(left); break;
            default: s = rsch.chance(1, 8) ? left : rsch.geom(16); break;
            }
            s *= scale;
            if(s > left) s = left;
            if(rsch.chance(1, 12)) d.push_back(0);
            d.push_back((long)s);
            left -= s;
        }
        run_sched(c, d, "k_chunk");
    }
    // (vi) the rest of E arriving together with the trailing bytes / E alone first, trailing later
    if(n > c.elen) {
        run_sched(c, {(long)c.elen, -1}, "trailing_after");
        if(c.elen > 1) run_sched(c, {(long)(c.elen - 1), -1}, "trailing_with_last_byte");
    }
    // (vii) the repository's own stream loop over a simulated file (no trailing bytes: the stream is K copies of E)
    if(c.elen > 0 && c.elen <= 16384) {
        unsigned reps = thorough ? 6 : 2;
        for(unsigned i = 0; i < reps && g_case_work <= g_case_budget; i++) {
            unsigned K = 1 + (unsigned)rsch.below(4);
            long bufsize = 1 + (long)(rsch.chance(1, 3) ? rsch.below(8) : rsch.chance(1, 2) ? rsch.below(c.elen + 4) : rsch.below(8192));
            Op op = mkop("conv"); op.attrs["pdus"] = L(K); op.attrs["bufsize"] = L(bufsize);
            status_ops(op.str());
            Outcome o; exec_stream_loop(c, K, bufsize, o);
            g_case_work += o.work * K; G.add("c05.schedules"); G.add("c05.sched.stream_loop"); G.add("c05.fired.stream_loop_pdus", o.resumed);
            if(o.violated) report_violation("C05", mk_sig(c, o), o.detail, c.head.head_str() + op.str());
        }
    }
    G.add("c05.fired.realloc_moved", (uint64_t)(sim_alloc_total_moves() - moves_before));
    if(G.n["c05.fired.chunk_boundary_resumed"] > resumed_before) G.seen("c05.nontrivial_cases", hash_str(c.head.head_str()));
    if(G.samples.size() < 4 && index % 7 == 0) G.samples.push_back(c.head.head_str() + "op deliver " + L(n / 2) + "\nop deliver rest\n");
    (void)before;
}

static ReplayResult c05_replay(const Plan &p) {
    ReplayResult rr;
    Case c;
    c.td = pdu_by_name(p.get("type"));
    if(!c.td || !syntax_from_name(p.get("syntax"), c.sy) || !from_hex(p.get("stream"), c.S)) { rr.skipped = true; rr.detail = "unusable plan"; return rr; }
    c.elen = (size_t)p.getl("elen", (long)c.S.size());
    if(c.elen > c.S.size()) c.elen = c.S.size();
    c.head = p; c.head.ops.clear();
    sim_alloc_always_move(p.get("realloc") == "move");
    std::string why;
    if(!prepare_reference(c, why)) { rr.skipped = true; rr.detail = "precondition: " + why; return rr; }
    for(auto &op : p.ops) if(op.name == "conv") {
        Outcome o; exec_stream_loop(c, (unsigned)op.attrl("pdus", 1), op.attrl("bufsize", 64), o);
        rr.violated = o.violated; if(o.violated) { rr.sig = mk_sig(c, o); rr.detail = o.detail; }
        return rr;
    }
    std::vector<long> d;
    for(auto &op : p.ops) if(op.name == "deliver") d.push_back(op.args.empty() || op.args[0] == "rest" ? -1 : op.argl(0));
    Outcome o;
    exec_schedule(c, d, o, false, true);
    rr.violated = o.violated;
    if(o.violated) { rr.sig = mk_sig(c, o); rr.detail = o.detail; }
    return rr;
}

} // namespace

Engine engine_c05 = {"C05", c05_run, c05_replay, nullptr};
